#!/usr/bin/env python3
"""xtract: mechanical extraction of real oRatio C++ functions into C for CBMC.

Input : clang++ -Xclang -ast-dump=json of translation units of /repo's *current working tree*.
Output: a C translation unit containing, for every requested function and every callee that is
        not stubbed, a C function whose statements are a node-by-node rendering of clang's AST.

Must-fire rules: every requested function must exist with a body; every AST node kind met must be
supported; every callee must be extracted, modelled (cmodel), or declared as a contract stub.
Anything else raises ExtractionBreak (the driver turns that into exit 2, never a VIOLATION).
"""
import hashlib
import json
import os
import re
import subprocess
import sys

from cxxtypes import parse_type, Ty, TypeParseError


class ExtractionBreak(Exception):
    pass


def brk(msg):
    raise ExtractionBreak(msg)


# --------------------------------------------------------------------------------------------
# loading clang JSON dumps
# --------------------------------------------------------------------------------------------

CACHE_DIR = os.environ.get('XTRACT_CACHE', '/tmp/xtract-cache')


def load_many(text):
    dec = json.JSONDecoder()
    i, n, out = 0, len(text), []
    while i < n:
        while i < n and text[i].isspace():
            i += 1
        if i >= n:
            break
        o, j = dec.raw_decode(text, i)
        out.append(o)
        i = j
    return out


def clang_dump(src, incs, defs, filt):
    """Run clang on src (absolute path) and return the list of top-level JSON objects."""
    cmd = ['clang++', '-std=c++17', '-fsyntax-only', '-Wno-everything', '-Xclang', '-ast-dump=json']
    if filt:
        cmd += ['-Xclang', '-ast-dump-filter=' + filt]
    for i in incs:
        cmd += ['-I', i]
    for d in defs:
        cmd += ['-D' + d]
    cmd.append(src)
    # cache keyed by the preprocessed text, so that any edit of the source or a header invalidates it
    pp = subprocess.run(['clang++', '-std=c++17', '-E', '-P'] + cmd[5 + (2 if filt else 0):],
                        stdout=subprocess.PIPE, stderr=subprocess.PIPE)
    if pp.returncode != 0:
        brk('clang preprocessing failed for %s: %s' % (src, pp.stderr.decode()[:2000]))
    key = hashlib.sha256(pp.stdout + ' '.join(cmd).encode()).hexdigest()[:24]
    os.makedirs(CACHE_DIR, exist_ok=True)
    cpath = os.path.join(CACHE_DIR, key + '.json')
    if os.path.exists(cpath):
        with open(cpath) as f:
            return load_many(f.read())
    r = subprocess.run(cmd, stdout=subprocess.PIPE, stderr=subprocess.PIPE)
    if r.returncode != 0:
        brk('clang failed on %s: %s' % (src, r.stderr.decode()[:2000]))
    text = r.stdout.decode()
    tmp = cpath + '.%d.tmp' % os.getpid()
    with open(tmp, 'w') as f:
        f.write(text)
    os.replace(tmp, cpath)
    return load_many(text)


def clang_dump_namespaces(src, incs, defs, keep):
    """Unfiltered dump reduced to the top-level namespaces in `keep` (for translation units whose namespace name is a
    substring of std names, where -ast-dump-filter cannot be used).  Source locations are resolved over the whole dump
    before the reduction, and the reduced, annotated dump is cached."""
    cmd = ['clang++', '-std=c++17', '-fsyntax-only', '-Wno-everything', '-Xclang', '-ast-dump=json']
    for i in incs:
        cmd += ['-I', i]
    for d in defs:
        cmd += ['-D' + d]
    cmd.append(src)
    pp = subprocess.run(['clang++', '-std=c++17', '-E', '-P'] + cmd[5:], stdout=subprocess.PIPE, stderr=subprocess.PIPE)
    if pp.returncode != 0:
        brk('clang preprocessing failed for %s: %s' % (src, pp.stderr.decode()[:2000]))
    key = hashlib.sha256(pp.stdout + ' '.join(cmd).encode() + ('|'.join(keep)).encode()).hexdigest()[:24]
    os.makedirs(CACHE_DIR, exist_ok=True)
    cpath = os.path.join(CACHE_DIR, key + '.ns.json')
    if os.path.exists(cpath):
        with open(cpath) as f:
            return json.load(f)
    r = subprocess.run(cmd, stdout=subprocess.PIPE, stderr=subprocess.PIPE)
    if r.returncode != 0:
        brk('clang failed on %s: %s' % (src, r.stderr.decode()[:2000]))
    root = json.loads(r.stdout)
    del r
    loc = TU.__new__(TU)
    loc._file = None
    loc._line = None
    out = []
    for n in root.get('inner', []):
        loc._locs(n)
        if n.get('kind') == 'NamespaceDecl' and n.get('name') in keep:
            out.append(n)
    del root
    tmp = cpath + '.%d.tmp' % os.getpid()
    with open(tmp, 'w') as f:
        json.dump(out, f)
    os.replace(tmp, cpath)
    return out


OPNAMES = {
    '+': 'add', '-': 'sub', '*': 'mul', '/': 'div', '%': 'mod', '==': 'eq', '!=': 'ne', '<': 'lt', '<=': 'le',
    '>': 'gt', '>=': 'ge', '+=': 'addeq', '-=': 'subeq', '*=': 'muleq', '/=': 'diveq', '!': 'not', '=': 'assign',
    '[]': 'idx', '()': 'call', '->': 'arrow', '++': 'inc', '--': 'dec', '&&': 'land', '||': 'lor', '<<': 'shl',
    '>>': 'shr', '&': 'and', '|': 'or', '^': 'xor', '~': 'compl', '%=': 'modeq', '<<=': 'shleq', '>>=': 'shreq',
    '&=': 'andeq', '|=': 'oreq', '^=': 'xoreq', ',': 'comma',
}

FUNC_KINDS = ('FunctionDecl', 'CXXMethodDecl', 'CXXConstructorDecl', 'CXXDestructorDecl', 'CXXConversionDecl')
RECORD_KINDS = ('CXXRecordDecl', 'ClassTemplateSpecializationDecl')


class TU:
    """One translation unit's dump, indexed."""

    def __init__(self, path, objs, located=False):
        self.path = path
        self.by_id = {}
        self.qual = {}       # decl id -> qualified C++ name
        self.parent = {}     # node id -> parent node (for decls)
        self.funcs = []      # function-like decl nodes
        self.records = []
        self.typedefs = {}   # qualified name -> type dict
        self.enums = {}
        self.globals = []
        self._file = None
        self._line = None
        seen = set()
        for o in objs:
            if o.get('id') in seen or o.get('id') in self.by_id:
                # already indexed (a later dump filter matched a declaration nested in an earlier match)
                if not located:
                    self._locs(o)
                continue
            seen.add(o.get('id'))
            if not located:
                self._locs(o)
            self._index(o, [], False)
        # second pass: qualified names that depend on parentDeclContextId
        for f in self.funcs + self.globals:
            pc = f.get('parentDeclContextId')
            if pc and pc in self.by_id and pc in self.qual:
                self.qual[f['id']] = self.qual[pc] + '::' + f.get('name', '')

    # resolve the delta-encoded source locations, in dump order
    def _loc1(self, l):
        if not isinstance(l, dict):
            return None
        if 'spellingLoc' in l or 'expansionLoc' in l:
            res = None
            for k in l:
                if k in ('spellingLoc', 'expansionLoc'):
                    r = self._loc1(l[k])
                    if k == 'expansionLoc':
                        res = r
            return res
        if 'file' in l:
            self._file = l['file']
        if 'line' in l:
            self._line = l['line']
        if not l:
            return None
        return (self._file, self._line)

    def _locs(self, n):
        stack = [n]
        # iterative pre-order walk in dump order
        while stack:
            x = stack.pop()
            if isinstance(x, dict):
                if 'loc' in x:
                    r = self._loc1(x['loc'])
                    if r:
                        x['_loc'] = r
                if 'range' in x:
                    b = self._loc1(x['range'].get('begin'))
                    e = self._loc1(x['range'].get('end'))
                    if b:
                        x['_begin'] = b
                    if e:
                        x['_end'] = e
                inner = x.get('inner')
                if inner:
                    stack.extend(reversed(inner))

    def _index(self, n, scope, in_friend):
        k = n.get('kind', '')
        nid = n.get('id')
        if nid and k.endswith('Decl'):
            self.by_id[nid] = n
        name = n.get('name')
        sub = scope
        if k == 'NamespaceDecl':
            sub = scope + [name] if name else scope
            self.qual[nid] = '::'.join(sub)
        elif k in RECORD_KINDS:
            if name:
                sub = scope + [name]
                self.qual[nid] = '::'.join(sub)
                if n.get('completeDefinition'):
                    self.records.append(n)
        elif k == 'EnumDecl':
            if name:
                self.qual[nid] = '::'.join(scope + [name])
                self.enums[self.qual[nid]] = n
            for c in n.get('inner', []):
                if c.get('kind') == 'EnumConstantDecl':
                    self.by_id[c['id']] = c
                    # unscoped enum constants live in the enclosing scope; scoped ones are qualified by the enum
                    self.qual[c['id']] = '::'.join(scope + ([name] if n.get('scopedEnumTag') and name else []) + [c['name']])
                    c['_enum'] = n
            return
        elif k in FUNC_KINDS:
            sc = scope
            if in_friend:
                # friend functions are members of the innermost enclosing namespace
                sc = [s for s in scope if s in self._ns_names]
            self.qual[nid] = '::'.join(sc + [name or ''])
            n['_scope'] = list(sc)
            self.funcs.append(n)
            for c in n.get('inner', []):
                if c.get('kind') == 'ParmVarDecl':
                    self.by_id[c['id']] = c
            # index decls inside bodies (locals, lambdas) lazily: walk for ids
            self._index_body(n)
            return
        elif k in ('TypedefDecl', 'TypeAliasDecl'):
            if name:
                self.qual[nid] = '::'.join(scope + [name])
                self.typedefs[self.qual[nid]] = n.get('type', {})
            return
        elif k == 'VarDecl':
            self.qual[nid] = '::'.join(scope + [name or ''])
            n['_scope'] = list(scope)
            self.globals.append(n)
            return
        elif k == 'FieldDecl':
            self.qual[nid] = '::'.join(scope + [name or ''])
            n['_record'] = '::'.join(scope)
            return
        for c in n.get('inner', []):
            if k == 'NamespaceDecl':
                self._ns_names.add(name)
            self._index(c, sub, in_friend or k == 'FriendDecl')

    _ns_names = set(['smt', 'ratio', 'riddle', 'ast', 'std', 'json'])

    def _index_body(self, f):
        stack = list(f.get('inner', []))
        while stack:
            x = stack.pop()
            k = x.get('kind', '')
            if k.endswith('Decl') and 'id' in x:
                self.by_id[x['id']] = x
                if k == 'CXXRecordDecl' and x.get('completeDefinition'):
                    # local class / lambda closure type
                    x['_local_in'] = f
            stack.extend(x.get('inner', []))

    def canonical(self, nid):
        """first declaration of a redeclarable decl"""
        n = self.by_id.get(nid)
        seen = 0
        while n is not None and 'previousDecl' in n and n['previousDecl'] in self.by_id and seen < 50:
            n = self.by_id[n['previousDecl']]
            seen += 1
        return n


# --------------------------------------------------------------------------------------------
# project: several TUs, merged by mangled name / qualified name
# --------------------------------------------------------------------------------------------

BUILTIN_C = {
    'bool': '_Bool', 'long': 'I_t', 'unsigned long': 'U_t', 'int': 'int', 'unsigned int': 'unsigned int',
    'double': 'double', 'float': 'float', 'char': 'char', 'unsigned char': 'unsigned char', 'signed char': 'signed char',
    'short': 'short', 'unsigned short': 'unsigned short', 'void': 'void', 'long long': 'long long',
    'unsigned long long': 'unsigned long long', 'long double': 'double', 'std::nullptr_t': 'void *', 'nullptr_t': 'void *',
}
BUILTIN_ABBR = {
    'bool': 'b', 'long': 'I', 'unsigned long': 'U', 'int': 'i', 'unsigned int': 'u', 'double': 'd', 'char': 'c',
    'unsigned short': 'us', 'short': 's', 'void': 'v', 'float': 'f', 'unsigned char': 'uc', 'long long': 'll',
    'unsigned long long': 'ull',
}
STD_TYPEDEFS = {'size_t': 'unsigned long', 'std::size_t': 'unsigned long', 'ptrdiff_t': 'long', 'std::ptrdiff_t': 'long',
                'uint64_t': 'unsigned long', 'int64_t': 'long', 'std::map::size_type': 'unsigned long',
                'std::vector::size_type': 'unsigned long', 'size_type': 'unsigned long',
                'std::string::size_type': 'unsigned long'}


class Project:
    def __init__(self, repo, incs, defs, filt='smt', stubs_dir=None):
        self.repo = repo
        self.incs = ([stubs_dir] if stubs_dir else []) + [os.path.join(repo, i) for i in incs]
        self.defs = defs
        self.filt = filt
        self.tus = []
        self.defn = {}        # mangled name -> (tu, node with body)
        self.decl_any = {}    # mangled name -> (tu, some decl node)
        self.record = {}      # qualified name -> (tu, node)
        self.typedef = {}     # qualified name -> Ty
        self.enum = {}
        self.globals = {}     # qualified name -> (tu, node) preferring the one with init

    def add_tu(self, rel):
        src = rel if os.path.isabs(rel) else os.path.join(self.repo, rel)
        if not os.path.exists(src):
            brk('translation unit %s does not exist' % rel)
        if isinstance(self.filt, dict):
            objs = clang_dump_namespaces(src, self.incs, self.defs, self.filt['namespaces'])
            tu = TU(rel, objs, located=True)
        else:
            filts = self.filt if isinstance(self.filt, (list, tuple)) else [self.filt]
            objs = []
            for f in filts:
                objs += clang_dump(src, self.incs, self.defs, f)
            tu = TU(rel, objs)
        self.tus.append(tu)
        for f in tu.funcs:
            m = f.get('mangledName')
            if not m:
                continue
            self.decl_any.setdefault(m, (tu, f))
            if f.get('isImplicit'):
                continue
            if any(c.get('kind') in ('CompoundStmt', 'CXXTryStmt') for c in f.get('inner', [])):
                self.defn.setdefault(m, (tu, f))
        for r in tu.records:
            q = tu.qual.get(r['id'])
            if q and '_local_in' not in r:
                self.record.setdefault(q, (tu, r))
        for q, t in tu.typedefs.items():
            if q not in self.typedef:
                self.typedef[q] = t
        for q, e in tu.enums.items():
            self.enum.setdefault(q, (tu, e))
        for g in tu.globals:
            q = tu.qual[g['id']]
            has_init = any(c.get('kind', '').endswith('Expr') or c.get('kind', '').endswith('Literal') for c in g.get('inner', []))
            if q not in self.globals or (has_init and not self.globals[q][2]):
                self.globals[q] = (tu, g, has_init)
        return tu


# --------------------------------------------------------------------------------------------
# emission
# --------------------------------------------------------------------------------------------

class Deref(str):
    """marks a C expression of the form (*P) so that &(*P) can be simplified to P"""
    pass


def deref(p):
    if isinstance(p, Addr):
        return p.lv
    d = Deref('(*%s)' % p)
    d.ptr = p
    return d


class Addr(str):
    pass


class Elem(str):
    """C.e[IDX]: element of a vector model (attributes cont = pointer to the container, cname, idx)"""
    pass


class NestedElem(str):
    """element of a container that is itself an element of a container: (ROW)->e[IDX].  CBMC 6.11 mis-handles a POINTER
    base + const + sym*stride whose constant part is the offset of the first element of an inner array (it indexes row 0's
    inner array with the symbolic remainder: reads/writes through it are arbitrary — spurious failures, see DESIGN §0).
    When the address of such an element is taken, the row pointer is formed by NAME_at(), a case split over the constant
    row addresses, which CBMC dereferences precisely."""
    pass


def addr(lv):
    if isinstance(lv, Deref):
        return lv.ptr
    if isinstance(lv, Elem) and getattr(lv, 'row_like', False):
        a = Addr('%s_at(%s, %s_chk(%s, %s))' % (lv.cname, lv.cont, lv.cname, lv.cont, lv.idx))
        a.lv = lv
        return a
    if isinstance(lv, NestedElem) and lv.outer is not None:
        o = lv.outer
        a = Addr('(&%s_at(%s, %s_chk(%s, %s))->e[%s])' % (o.cname, o.cont, o.cname, o.cont, o.idx, lv.idx))
        a.lv = lv
        return a
    a = Addr('(&%s)' % lv)
    a.lv = lv
    return a


class Emitter:
    def __init__(self, proj, models, opts=None):
        self.p = proj
        self.models = models            # cmodel registry (see cmodel.py)
        self.opts = opts or {}
        self.funcs_out = {}             # cname -> dict(proto, body, meta)
        self.func_order = []
        self.queue = []
        self.records_needed = []        # qualified names in order of first need
        self.records_seen = set()
        self.inst_needed = []           # container instantiations (cname) in order
        self.globals_needed = []
        self.cname_of_mangled = {}
        self.mangled_of_cname = {}
        self.stub = set(self.opts.get('stubs', []))       # cnames never given a body
        self.noinline = self.opts.get('stub_unknown', False)
        self.external_protos = {}       # cname -> proto string (bodyless)
        self.node_kinds = set()
        self.tmp_counter = 0
        self.lambda_counter = 0
        self.static_funcs = []          # lambdas lifted to static functions
        self.dropped = set()
        self.typeorder = []             # ('record', q) | ('inst', cname) in dependency order
        self.typeorder_seen = set()
        self.string_tokens = {}
        self.forward_records = set()

    # ---------------------------------------------------------------- types
    def resolve_name(self, name, scope=()):
        """resolve a (possibly unqualified) type name to a canonical known name"""
        if name in BUILTIN_C:
            return name
        if name in ('initializer_list', 'vector', 'map', 'set', 'pair', 'unordered_map', 'unordered_set', 'queue'):
            return 'std::' + name
        if name in STD_TYPEDEFS:
            return STD_TYPEDEFS[name]
        cands = [name]
        sc = list(scope)
        while sc:
            cands.append('::'.join(sc) + '::' + name)
            sc.pop()
        for ns in ('smt', 'ratio', 'riddle', 'riddle::ast', 'ratio::ast', 'smt::json'):
            cands.append(ns + '::' + name)
        for c in cands:
            if c in self.p.typedef or c in self.p.record or c in self.p.enum:
                return c
        # nested class / typedef mentioned without its enclosing class: unique suffix match
        suf = '::' + name
        hits = [q for q in list(self.p.record) + list(self.p.typedef) + list(self.p.enum) if q.endswith(suf)]
        if len(set(hits)) == 1:
            return hits[0]
        return name

    def canon(self, ty, scope=()):
        """canonicalise a Ty: resolve typedefs recursively"""
        if ty.kind == 'lit':
            return ty
        if ty.kind in ('ptr', 'ref', 'rref', 'array'):
            t = Ty(ty.kind, inner=self.canon(ty.inner, scope), const=ty.const, size=ty.size)
            return t
        if ty.kind == 'func':
            return Ty('func', inner=self.canon(ty.inner, scope), params=[self.canon(x, scope) for x in ty.params])
        if ty.params and len(ty.params) >= 2:
            last = ty.params[-1][0]
            outer = '::'.join(p[0] for p in ty.params[:-1])
            oargs = ty.params[-2][1]
            pick = None
            if last in ('value_type', 'reference', 'const_reference'):
                pick = 1 if outer.endswith('__alloc_traits') else (0 if outer in ('std::vector', 'std::set', 'std::unordered_set', 'std::initializer_list', 'std::queue',
                                                                                  'std::__detail::_Node_const_iterator', 'std::__detail::_Node_iterator', 'std::__detail::_Node_iterator_base',
                                                                                  'std::_Rb_tree_iterator', 'std::_Rb_tree_const_iterator') else None)
            elif last == 'mapped_type' and outer in ('std::map', 'std::unordered_map'):
                pick = 1
            elif last == 'key_type' and outer in ('std::map', 'std::unordered_map', 'std::set', 'std::unordered_set'):
                pick = 0
            elif last in ('size_type', 'difference_type'):
                return Ty('name', 'unsigned long' if last == 'size_type' else 'long', [], ty.const)
            if pick is not None and pick < len(oargs):
                t = self.canon(oargs[pick], scope)
                if ty.const:
                    t = Ty(t.kind, t.name, t.args, True, t.inner, t.params, t.size)
                return t
        name = self.resolve_name(ty.name, scope)
        if name.split('::')[-1] == 'basic_string' or name in ('std::string', 'string'):
            return Ty('name', 'std::string', [], ty.const)
        if name in ('std::vector', 'std::set', 'std::unordered_set', 'std::queue', 'std::list', 'std::deque') and len(ty.args) > 1:
            ty = Ty('name', name, ty.args[:1], ty.const)
        if name in ('std::map', 'std::unordered_map') and len(ty.args) > 2:
            ty = Ty('name', name, ty.args[:2], ty.const)
        if name in self.p.typedef and not ty.args:
            td = self.p.typedef[name]
            s = td.get('desugaredQualType') or td.get('qualType')
            t = self.canon(parse_type(s), scope)
            if ty.const:
                t = Ty(t.kind, t.name, t.args, True, t.inner, t.params, t.size)
            return t
        if name in STD_TYPEDEFS:
            t = self.canon(parse_type(STD_TYPEDEFS[name]), scope)
            t.const = t.const or ty.const
            return t
        t = Ty('name', name, [self.canon(a, scope) for a in ty.args], ty.const)
        if ty.params:
            t.params = ty.params
        return t

    def ty_of(self, tdict, scope=()):
        s = tdict.get('desugaredQualType') or tdict.get('qualType')
        try:
            return self.canon(parse_type(s), scope)
        except TypeParseError as e:
            brk('type: %s' % e)

    def abbr(self, ty):
        if ty.kind in ('ref', 'rref'):
            return self.abbr(ty.inner)
        if ty.kind == 'ptr':
            return self.abbr(ty.inner) + 'p'
        if ty.kind == 'lit':
            return re.sub(r'\W', '_', ty.name)
        if ty.kind == 'array':
            return self.abbr(ty.inner) + 'a'
        if ty.kind == 'func':
            return 'fn'
        if ty.name in BUILTIN_ABBR:
            return BUILTIN_ABBR[ty.name]
        base = ty.name.split('::')[-1]
        if ty.name.startswith('std::') or ty.name.startswith('__gnu_cxx::') or ty.args:
            nm = self.models.name_of(self, ty)     # naming only: never instantiates a model
            if nm:
                return nm
        return re.sub(r'\W', '_', base) + ''.join('_' + self.abbr(a) for a in ty.args)

    def ctype(self, ty):
        """C type string for a canonical Ty (declaration level: refs become pointers)"""
        if ty.kind in ('ref', 'rref', 'ptr'):
            inner = ty.inner
            if inner.kind == 'func':
                return 'void *'
            if inner.kind == 'name' and inner.name in self.p.record and not inner.args:
                # a pointer/reference needs only a forward declaration; the definition is pulled in by member accesses
                self.forward_records.add(inner.name)
                return 'struct ' + self.rec_cname(inner.name) + ' *'
            return self.ctype(inner) + ' *'
        if ty.kind == 'array':
            brk('array type not supported here: %r' % ty)
        if ty.kind == 'func':
            brk('function type not supported here: %r' % ty)
        if ty.kind == 'lit':
            brk('literal as type')
        if ty.name in BUILTIN_C:
            return BUILTIN_C[ty.name]
        if ty.name in self.p.record and not ty.args:
            self.need_record(ty.name)
            return 'struct ' + self.rec_cname(ty.name)
        if ty.name in self.p.enum:
            return 'int'
        m = self.models.lookup(self, ty)
        if m is not None:
            return m.ctype
        brk('no C mapping for type %r' % ty)

    def rec_cname(self, q):
        return re.sub(r'\W+', '_', q)

    def need_record(self, q):
        if q in self.records_seen:
            return
        self.records_seen.add(q)
        tu, r = self.p.record[q]
        # fields first (dependencies), then the record itself
        fields = []
        bases = []
        for b in r.get('bases', []):
            bt = self.ty_of(b['type'])
            bases.append(bt)
        for c in r.get('inner', []):
            if c.get('kind') == 'FieldDecl':
                fields.append(c)
        ftexts = []
        abstract = self.opts.get('abstract_fields', {}).get(q)
        for bt in bases:
            if bt.name in self.opts.get('drop_bases', ()):
                continue
            ftexts.append('  %s base_%s;' % (self.ctype(bt), self.rec_cname(bt.name).split('_')[-1]))
        for f in fields:
            if abstract is not None and f['name'] not in abstract:
                self.dropped.add('field %s::%s (not used by the extracted functions)' % (q, f['name']))
                continue
            ft = self.ty_of(f['type'], q.split('::'))
            ftexts.append('  %s;' % self.cdecl(ft, f['name']))
        if not ftexts:
            ftexts.append('  char _empty;')
        self.typeorder.append(('record', q, 'struct %s {\n%s\n};' % (self.rec_cname(q), '\n'.join(ftexts))))

    def cdecl(self, ty, name):
        if ty.kind == 'array':
            return '%s[%s]' % (self.cdecl(ty.inner, name), ty.size)
        return '%s %s' % (self.ctype(ty), name)

    # ---------------------------------------------------------------- function names
    def func_cname(self, tu, f):
        m = f.get('mangledName')
        if m in self.cname_of_mangled:
            return self.cname_of_mangled[m]
        q = tu.qual.get(f['id'], f.get('name', ''))
        canon = tu.canonical(f['id'])
        if canon is not None and canon['id'] in tu.qual and f.get('parentDeclContextId') is None:
            q = tu.qual[canon['id']]
        name = f.get('name', '')
        parts = q.split('::')
        base = parts[:-1]
        last = parts[-1] if parts else name
        if last.startswith('operator'):
            op = last[len('operator'):].strip()
            if op in OPNAMES:
                last = 'op_' + OPNAMES[op]
            else:
                last = 'conv_' + re.sub(r'\W+', '_', op)
        if f['kind'] == 'CXXConstructorDecl':
            last = 'ctor'
        if f['kind'] == 'CXXDestructorDecl':
            last = 'dtor'
        scope = f.get('_scope', [])
        fty = self.ty_of(f['type'], scope)
        suffix = ''.join('__' + self.abbr(x) for x in fty.params)
        cn = re.sub(r'\W+', '_', '_'.join(base + [last])) + suffix
        if cn in self.mangled_of_cname and self.mangled_of_cname[cn] != m:
            cn = cn + '_' + hashlib.sha1(m.encode()).hexdigest()[:6]
        self.cname_of_mangled[m] = cn
        self.mangled_of_cname[cn] = m
        return cn

    def lookup_func(self, tu, nid):
        """decl id in tu -> (mangled, tu', defining-or-any node)"""
        n = tu.by_id.get(nid)
        if n is None:
            return None
        m = n.get('mangledName')
        if not m:
            return None
        if m in self.p.defn:
            return (m,) + self.p.defn[m] + (True,)
        return (m, tu, n, False)

    # ---------------------------------------------------------------- driver
    def request(self, cname_or_pattern):
        """request by C name; resolves over all function definitions"""
        for m, (tu, f) in self.p.defn.items():
            if self.func_cname(tu, f) == cname_or_pattern:
                self.enqueue(m)
                return
        brk('%s: no such function with a body in %s' % (cname_or_pattern, [t.path for t in self.p.tus]))

    def all_cnames(self):
        return sorted(self.func_cname(tu, f) for m, (tu, f) in self.p.defn.items())

    def enqueue(self, m):
        if m not in self.funcs_out and m not in self.queue:
            self.queue.append(m)

    def run(self):
        for ts in self.opts.get('force_types', ()):
            self.ctype(self.canon(parse_type(ts)))
        while self.queue:
            m = self.queue.pop(0)
            if m in self.funcs_out:
                continue
            tu, f = self.p.defn[m]
            self.funcs_out[m] = None
            self.funcs_out[m] = FuncEmitter(self, tu, f).emit()
            self.func_order.append(m)


    def proto_of(self, tu, f):
        fe = FuncEmitter(self, tu, f)
        return fe.proto()

    def declare_external(self, fe, ftu, f, cname):
        if cname not in self.external_protos:
            self.external_protos[cname] = None
            proto, rett, meta = self.proto_of(ftu, f)
            self.external_protos[cname] = {'proto': proto, 'meta': meta, 'ret': rett}

    def virtual_call(self, fe, m, ftu, f, args, self_arg, base):
        # virtual dispatch is not resolved: the call goes to the statically named function, which must be a stub
        # with a contract (or explicitly allowed as devirtualised by the caller's configuration)
        cname = self.func_cname(ftu, f)
        if cname not in self.stub and cname not in self.opts.get('devirtualize', ()):
            brk('%s: virtual call to %s needs a contract stub or a devirtualize entry' % (fe.f.get('name'), cname))
        return fe.call_function(m, ftu, f, args, self_arg)

    def global_deps(self, node, tu):
        """qualified names of globals referenced by an initialiser expression"""
        out = []
        stack = [node]
        while stack:
            x = stack.pop()
            if x.get('kind') == 'DeclRefExpr' and x.get('referencedDecl', {}).get('kind') == 'VarDecl':
                d = tu.by_id.get(x['referencedDecl']['id'])
                if d is not None and '_scope' in d:
                    q = tu.qual[d['id']]
                    if d.get('parentDeclContextId') in tu.qual:
                        q = tu.qual[d['parentDeclContextId']] + '::' + d['name']
                    out.append(q)
            stack.extend(x.get('inner', []))
        return out

    def output(self):
        """assemble the C translation unit (without contracts: those are spliced by the caller through opts)"""
        out = []
        for kind, name, text in self.typeorder:
            out.append(text)
        out.append('')
        # globals, initialised in dependency order (an initialiser may use other globals)
        ginit = []
        gdecls = []
        done = set()

        def emit_global(q):
            if q in done:
                return
            done.add(q)
            if q not in self.p.globals:
                brk('global %s has no definition in the loaded translation units' % q)
            tu, g, has_init = self.p.globals[q]
            t = self.ty_of(g['type'], g.get('_scope', []))
            cn = re.sub(r'\W+', '_', q)
            gdecls.append('%s;' % self.cdecl(t, cn))
            if has_init:
                fe = FuncEmitter(self, tu, {'kind': 'FunctionDecl', 'name': '__init_' + cn, 'type': {'qualType': 'void ()'}, 'id': '0', '_scope': g.get('_scope', [])})
                fe.blocks.append([])
                init = [c for c in g.get('inner', []) if not c.get('kind', '').endswith('Attr')][0]
                before = len(self.globals_needed)
                e = fe.expr(init)
                temps = fe.blocks.pop()
                for dep in list(self.globals_needed[before:]):
                    emit_global(dep)
                for dep in self.global_deps(init, tu):
                    emit_global(dep)
                ginit.append('{ %s %s = %s; }' % (' '.join(temps), cn, e))
        i = 0
        while i < len(self.globals_needed):
            emit_global(self.globals_needed[i])
            i += 1
        # run the queue again: global initialisers may have requested constructors
        self.run()
        protos = []
        bodies = []
        contracts = self.opts.get('contracts', {})
        for cname, ext in self.external_protos.items():
            if self.mangled_of_cname.get(cname) in self.funcs_out and self.funcs_out[self.mangled_of_cname[cname]]:
                continue
            c = contracts.get(cname)
            if c and ext.get('ret') == '_Bool':
                # a havocked _Bool must be a legal bool (0/1), as every real C++ bool is
                c += '\n__CPROVER_ensures(__CPROVER_return_value == 0 || __CPROVER_return_value == 1)'
            protos.append(ext['proto'] + ('\n' + c if c else '') + ';')
        for m in self.func_order:
            fo = self.funcs_out[m]
            protos.append(fo['proto'] + ';')
        for m in self.func_order:
            fo = self.funcs_out[m]
            c = contracts.get(fo['meta']['cname'])
            bodies.append('/* %s  [%s:%s-%s] */\n%s%s\n%s' % (fo['meta']['qualified'], fo['meta']['file'], fo['meta']['begin'], fo['meta']['end'],
                                                          fo['proto'], ('\n' + c) if c else '', fo['body']))
        types = '\n'.join('struct %s;' % self.rec_cname(q) for q in sorted(self.forward_records)) + '\n' + '\n'.join(t for (_, _, t) in self.typeorder)
        gl = gdecls
        return {
            'types': types,
            'globals': '\n'.join(gl),
            'global_init': 'void xt_init_globals(void) {\n' + ''.join('  ' + x + '\n' for x in ginit) + '}\n',
            'protos': '\n'.join(protos),
            'bodies': '\n'.join(self.static_funcs + bodies),
        }


class FuncEmitter:
    _discard_id = None

    def result_used(self, n):
        """False when n is the expression of an expression statement (its value is discarded)"""
        return not (n is not None and n.get('id') == self._discard_id)

    def assign(self, n, l, r):
        """C++ assignment expression l = r (an lvalue in C++); l is evaluated exactly once"""
        if n is not None and n.get('id') == self._discard_id:
            return '(%s = %s)' % (l, r)
        a = addr(l)
        if re.fullmatch(r'\(?&?[A-Za-z_][A-Za-z_0-9]*(->[A-Za-z_][A-Za-z_0-9]*|\.[A-Za-z_][A-Za-z_0-9]*)*\)?', a):
            return deref('(%s = %s, %s)' % (l, r, a))
        tp = self.new_tmp('void *')
        ct = None
        brk('assignment used as an lvalue with a complex left-hand side is not supported: %s' % l[:80])

    def __init__(self, em, tu, f, lambda_ctx=None):
        self.em = em
        self.tu = tu
        self.f = f
        self.scope = f.get('_scope', [])
        self.blocks = []           # stack of lists of hoisted temp declarations
        self.bindings = {}         # BindingDecl id -> expr node
        # `static` appears on the in-class declaration only: follow the redeclaration chain of an out-of-line definition
        static, nd, seen = False, f, 0
        while nd is not None and seen < 20:
            if nd.get('storageClass') == 'static':
                static = True
            nd = tu.by_id.get(nd.get('previousDecl')) if nd.get('previousDecl') else None
            seen += 1
        self.is_method = f['kind'] in ('CXXMethodDecl', 'CXXConstructorDecl', 'CXXDestructorDecl', 'CXXConversionDecl') and not static
        self.is_ctor = f['kind'] == 'CXXConstructorDecl'
        self.fty = em.ty_of(f['type'], self.scope)
        self.ret = self.fty.inner
        self.loops = 0
        self.loop_specs = {}
        self.lambda_ctx = lambda_ctx
        self.local_names = {}

    # ------------------------------------------------------------ helpers
    def ty(self, n):
        return self.em.ty_of(n['type'], self.scope)

    def record_of_method(self):
        pc = self.f.get('parentDeclContextId')
        if pc and pc in self.tu.qual:
            return self.tu.qual[pc]
        q = self.tu.qual[self.f['id']]
        return '::'.join(q.split('::')[:-1])

    def new_tmp(self, cty):
        self.em.tmp_counter += 1
        name = 'tmp%d' % self.em.tmp_counter
        self.blocks[-1].append('%s %s;' % (cty, name))
        return name

    def proto(self):
        em, f = self.em, self.f
        cname = em.func_cname(self.tu, f)
        params = []
        self.rec = None
        if self.is_method:
            self.rec = self.record_of_method()
            if not self.is_ctor:
                params.append('struct %s *self' % em.rec_cname(self.rec))
                em.need_record(self.rec)
        pnodes = [c for c in f.get('inner', []) if c.get('kind') == 'ParmVarDecl']
        for i, pn in enumerate(pnodes):
            pt = self.ty(pn)
            pname = pn.get('name') or ('arg%d' % i)
            pn['_cname'] = pname
            params.append(em.cdecl(pt, pname))
        if self.is_ctor:
            em.need_record(self.rec)
            rett = 'struct %s' % em.rec_cname(self.rec)
        else:
            rett = em.ctype(self.ret)
        proto = '%s %s(%s)' % (rett, cname, ', '.join(params) if params else 'void')
        meta = {
            'cname': cname, 'qualified': self.tu.qual.get(f['id']), 'signature': f['type']['qualType'],
            'mangled': f.get('mangledName'), 'file': f.get('_begin', (None, None))[0] or self.tu.path,
            'begin': f.get('_begin', (None, None))[1], 'end': f.get('_end', (None, None))[1],
            'noexcept': 'noexcept' in f['type']['qualType'], 'tu': self.tu.path,
        }
        return proto, rett, meta

    def emit(self):
        em, f = self.em, self.f
        proto, rett, meta = self.proto()
        body = None
        inits = []
        for c in f.get('inner', []):
            k = c.get('kind')
            if k in ('CompoundStmt', 'CXXTryStmt'):
                body = c
            elif k == 'CXXCtorInitializer':
                inits.append(c)
        lines = []
        self.blocks.append([])
        stmts = []
        if self.is_ctor:
            stmts.append('struct %s self_; struct %s *self = &self_;' % (em.rec_cname(self.rec), em.rec_cname(self.rec)))
            stmts += self.ctor_inits(inits)
        stmts += self.stmt_list(body.get('inner', []) if body.get('kind') == 'CompoundStmt' else [body])
        if self.is_ctor:
            stmts.append('return self_;')
        temps = self.blocks.pop()
        text = '{\n' + ''.join('  ' + t + '\n' for t in temps) + ''.join(indent(s) for s in stmts) + '}\n'
        meta['loops'] = self.loops
        return {'proto': proto, 'body': text, 'meta': meta, 'ret': rett}

    def ctor_inits(self, inits):
        em = self.em
        tu, r = em.p.record[self.rec]
        out = []
        inited = set()
        init_by_field = {}
        base_inits = []
        for ini in inits:
            if 'anyInit' in ini:
                init_by_field[ini['anyInit']['name']] = ini
            elif 'baseInit' in ini:
                base_inits.append(ini)
            else:
                brk('%s: unsupported ctor initializer %s' % (self.f.get('mangledName'), list(ini.keys())))
        for bi in base_inits:
            bt = em.ty_of(bi['baseInit'])
            e = self.expr(bi['inner'][0])
            out.append('self->base_%s = %s;' % (em.rec_cname(bt.name).split('_')[-1], e))
        abstract = em.opts.get('abstract_fields', {}).get(self.rec)
        for c in r.get('inner', []):
            if c.get('kind') != 'FieldDecl':
                continue
            fname = c['name']
            if abstract is not None and fname not in abstract:
                continue
            ft = em.ty_of(c['type'], self.rec.split('::'))
            ini = init_by_field.get(fname)
            src = None
            if ini is not None:
                src = ini['inner'][0]
            else:
                # default member initializer, or default construction
                dm = [x for x in c.get('inner', []) if x.get('kind', '').endswith('Expr') or x.get('kind', '').endswith('Literal')]
                if dm:
                    src = dm[0]
            if src is not None:
                if src.get('kind') == 'CXXDefaultInitExpr':
                    dm = [x for x in c.get('inner', []) if x.get('kind', '').endswith('Expr') or x.get('kind', '').endswith('Literal')]
                    src = dm[0]
                if ft.is_ref():
                    out.append('self->%s = %s;' % (fname, addr(self.expr(src))))
                else:
                    out.append('self->%s = %s;' % (fname, self.expr(src)))
            else:
                d = self.default_value(ft)
                if d is not None:
                    out.append('self->%s = %s;' % (fname, d))
        return out

    def default_value(self, ty):
        """value of default-initialisation T() for class types (None for scalars: indeterminate)"""
        em = self.em
        if ty.kind != 'name':
            return None
        if ty.name in em.p.record and not ty.args:
            return self.construct(ty, [], 'void ()')
        m = em.models.lookup(em, ty)
        if m is not None:
            return m.default_ctor(self)
        return None

    # ------------------------------------------------------------ statements
    def stmt_list(self, nodes):
        out = []
        for n in nodes:
            out += self.stmt(n)
        return out

    def block(self, n):
        """emit statement n as a braced block with its own temp scope"""
        self.blocks.append([])
        if n is None:
            stmts = []
        elif n.get('kind') == 'CompoundStmt':
            stmts = self.stmt_list(n.get('inner', []))
        else:
            stmts = self.stmt(n)
        temps = self.blocks.pop()
        return '{\n' + ''.join('  ' + t + '\n' for t in temps) + ''.join(indent(s) for s in stmts) + '}'

    def exc_check(self):
        return self.em.opts.get('exceptions', False)

    def ret_dummy(self):
        if getattr(self, 'try_stack', None):
            return 'goto %s;' % self.try_stack[-1]
        if 'noexcept' in self.f['type']['qualType'] and 'noexcept(false)' not in self.f['type']['qualType']:
            return '{ __CPROVER_assert(0, "noexcept: an exception escapes %s (std::terminate)"); __CPROVER_assume(0); %s }' % (self.f.get('name'), self.ret_dummy0())
        return self.ret_dummy0()

    def ret_dummy0(self):
        if self.is_ctor:
            return 'return self_;'
        rt = self.em.ctype(self.ret)
        if rt == 'void':
            return 'return;'
        if rt.startswith('struct') and not rt.endswith('*'):
            self.em.tmp_counter += 1
            return '{ %s dummy%d; return dummy%d; }' % (rt, self.em.tmp_counter, self.em.tmp_counter)
        return 'return 0;'

    def stmt(self, n):
        k = n.get('kind')
        self.em.node_kinds.add(k)
        m = getattr(self, 's_' + k, None)
        if m is None:
            if hasattr(self, 'e_' + k):
                return self.expr_stmt(n)
            brk('%s: unsupported statement kind %s at line %s' % (self.f.get('name'), k, n.get('_begin')))
        return m(n)

    def after_call_check(self, s):
        if self.exc_check() and self._stmt_may_throw:
            return [s, 'if (__exc) %s' % self.ret_dummy()]
        return [s]

    def expr_stmt(self, n):
        x = n
        while x.get('kind') in ('ExprWithCleanups', 'ParenExpr'):
            x = x['inner'][0]
        if x.get('kind') == 'CXXThrowExpr':
            return self.throw(x)
        # assert() pattern
        a = self.match_assert(n)
        if a is not None:
            return [a]
        self._stmt_may_throw = False
        e = self.expr(n, discard=True)
        return self.after_call_check('%s;' % e)

    def match_assert(self, n):
        x = n
        while x.get('kind') in ('ExprWithCleanups', 'ParenExpr'):
            x = x['inner'][0]
        if x.get('kind') != 'ConditionalOperator':
            return None
        c, t, e = x['inner']
        y = e
        while y.get('kind') in ('ParenExpr', 'ImplicitCastExpr'):
            y = y['inner'][0]
        if y.get('kind') != 'CallExpr':
            return None
        callee = y['inner'][0]
        while callee.get('kind') in ('ImplicitCastExpr', 'ParenExpr'):
            callee = callee['inner'][0]
        if callee.get('referencedDecl', {}).get('name') != '__assert_fail':
            return None
        cond = c
        while cond.get('kind') in ('ParenExpr',) or (cond.get('kind') == 'CXXStaticCastExpr'):
            cond = cond['inner'][0]
        self._stmt_may_throw = False
        loc_key = '%s:%s' % (os.path.basename(self.tu.path), n.get('_begin', (None, None))[1])
        if loc_key in self.em.opts.get('skip_asserts', ()):
            # the assertion states a property of callees that this job abstracts: it is not decided here (listed in the evidence)
            self.em.dropped.add('assert at %s (property of abstracted callees; not decided by this job)' % loc_key)
            return ';'
        if self.contains_kind(cond, 'LambdaExpr'):
            # debug-only consistency assertions written with std::all_of/any_of lambdas are not rendered
            self.em.dropped.add('assert() conditions that contain lambda algorithms (%s:%s)' % (os.path.basename(self.tu.path), n.get('_begin', (None, None))[1]))
            return ';'
        ce = self.expr(cond)
        line = n.get('_begin', (None, None))[1]
        return '__CPROVER_assert(%s, "assert %s:%s in %s");' % (ce, os.path.basename(self.tu.path), line, self.f.get('name'))

    def contains_kind(self, n, kind):
        stack = [n]
        while stack:
            x = stack.pop()
            if x.get('kind') == kind:
                return True
            stack.extend(x.get('inner', []))
        return False

    def s_CompoundStmt(self, n):
        return [self.block(n)]

    def s_NullStmt(self, n):
        return [';']

    def s_ReturnStmt(self, n):
        inner = n.get('inner', [])
        self._stmt_may_throw = False
        if not inner:
            return ['return self_;'] if self.is_ctor else ['return;']
        if self.ret.is_ref():
            e = addr(self.expr(inner[0]))
        else:
            e = self.expr(inner[0])
        if self.exc_check() and self._stmt_may_throw:
            rt = self.em.ctype(self.ret)
            t = self.new_tmp(rt)
            return ['%s = %s;' % (t, e), 'if (__exc) %s' % self.ret_dummy(), 'return %s;' % t]
        return ['return %s;' % e]

    def s_DeclStmt(self, n):
        out = []
        for d in n.get('inner', []):
            out += self.decl(d)
        return out

    def decl(self, d):
        k = d.get('kind')
        if k == 'VarDecl':
            return self.vardecl(d)
        if k == 'DecompositionDecl':
            return self.decomp(d)
        if k in ('TypedefDecl', 'TypeAliasDecl', 'StaticAssertDecl', 'UsingDecl', 'CXXRecordDecl'):
            return []
        brk('%s: unsupported declaration kind %s' % (self.f.get('name'), k))

    def uniq_local(self, d):
        name = d.get('name') or '_anon'
        name = re.sub(r'\W', '_', name)
        # C has no shadowing problems, but range-for helper names repeat within one block when loops are siblings -> fine in C (own blocks)
        d['_cname'] = name
        return name

    def vardecl(self, d):
        em = self.em
        t = self.ty(d)
        name = self.uniq_local(d)
        init = [c for c in d.get('inner', []) if not c.get('kind', '').endswith('Attr')]
        self._stmt_may_throw = False
        if d.get('storageClass') == 'static':
            brk('%s: static local %s' % (self.f.get('name'), name))
        if t.is_ref():
            if not init:
                brk('reference without init')
            e = self.expr(init[0])
            return self.after_call_check('%s = %s;' % (em.cdecl(t, name), addr(e)))
        if not init:
            dv = self.default_value(t)
            if dv is not None:
                return self.after_call_check('%s = %s;' % (em.cdecl(t, name), dv))
            return ['%s;' % em.cdecl(t, name)]
        e = self.expr(init[0])
        if d.get('init') == 'list' and init[0].get('kind') == 'InitListExpr' and t.kind == 'name' and t.name in BUILTIN_C:
            pass
        return self.after_call_check('%s = %s;' % (em.cdecl(t, name), e))

    def decomp(self, d):
        # structured binding:  auto &[a, b] = expr;   (clang: DecompositionDecl with init + BindingDecls)
        em = self.em
        t = self.ty(d)
        em.tmp_counter += 1
        name = 'sb%d' % em.tmp_counter
        d['_cname'] = name
        init = None
        bidx = 0
        for c in d.get('inner', []):
            if c.get('kind') == 'BindingDecl':
                b = c['inner'][0]
                if b.get('kind') == 'DeclRefExpr' and b['referencedDecl']['kind'] == 'VarDecl' and b['referencedDecl']['id'] not in self.tu.by_id:
                    # tuple-like decomposition (std::pair): clang binds to hidden holding variables initialised with get<i>()
                    bt = t.strip_ref()
                    if bt.name != 'std::pair':
                        brk('structured binding of tuple-like type %r' % bt)
                    ft = bt.args[bidx]
                    self.bindings[c['id']] = ('field', d, ('first', 'second')[bidx], ft.is_ref())
                else:
                    self.bindings[c['id']] = b
                bidx += 1
            elif not c.get('kind', '').endswith('Attr'):
                init = c
        self._stmt_may_throw = False
        e = self.expr(init)
        if t.is_ref():
            return self.after_call_check('%s = %s;' % (em.cdecl(t, name), addr(e)))
        return self.after_call_check('%s = %s;' % (em.cdecl(t, name), e))

    def cond_expr(self, n):
        self._stmt_may_throw = False
        return self.expr(n)

    def s_IfStmt(self, n):
        inner = list(n.get('inner', []))
        pre = []
        if n.get('hasInit'):
            pre += self.stmt(inner.pop(0))
        if n.get('hasVar'):
            pre += self.stmt(inner.pop(0))
        cond = inner[0]
        then = inner[1]
        els = inner[2] if len(inner) > 2 else None
        # the condition's temporaries live in the enclosing block
        c = self.cond_expr(cond)
        thrown = self.exc_check() and self._stmt_may_throw
        s = ''
        if thrown:
            t = self.new_tmp('_Bool')
            pre += ['%s = %s;' % (t, c), 'if (__exc) %s' % self.ret_dummy()]
            c = t
        s = 'if (%s) %s' % (c, self.block(then))
        if els is not None:
            s += ' else ' + self.block(els)
        if pre:
            self.blocks.append([])
            # declarations in pre must scope over the if: wrap
            temps = self.blocks.pop()
            return ['{\n' + ''.join(indent(x) for x in pre + [s]) + '}']
        return [s]

    def loop_head(self):
        self.loops += 1
        spec = self.em.opts.get('loop_specs', {}).get((self.em.func_cname(self.tu, self.f), self.loops))
        return ('\n' + spec + '\n') if spec else ' '

    def s_WhileStmt(self, n):
        inner = [c for c in n.get('inner', [])]
        cond, body = inner[-2], inner[-1]
        head = self.loop_head()
        c = self.cond_expr(cond)
        if self.exc_check() and self._stmt_may_throw:
            brk('throwing call in while condition')
        return ['while (%s)%s%s' % (c, head, self.block(body))]

    def s_DoStmt(self, n):
        body, cond = n['inner']
        head = self.loop_head()
        b = self.block(body)
        c = self.cond_expr(cond)
        return ['do%s%s while (%s);' % (head, b, c)]

    def s_ForStmt(self, n):
        # inner: init, condvar, cond, inc, body  (missing ones are {} )
        init, condvar, cond, inc, body = n['inner']
        pre = []
        self.blocks.append([])
        if init and init.get('kind'):
            pre = self.stmt(init)
        head = self.loop_head()
        c = self.cond_expr(cond) if cond and cond.get('kind') else '1'
        i = self.expr(inc, discard=True) if inc and inc.get('kind') else ''
        b = self.block(body)
        temps = self.blocks.pop()
        return ['{\n' + ''.join('  ' + t + '\n' for t in temps) + ''.join(indent(x) for x in pre) +
                indent('for (; %s; %s)%s%s' % (c, i, head, b)) + '}']

    def s_CXXForRangeStmt(self, n):
        # inner: [init], range, begin, end, cond, inc, loopvar, body
        inner = list(n['inner'])
        if len(inner) == 8:
            init, rng, beg, end, cond, inc, lv, body = inner
        else:
            brk('CXXForRangeStmt with %d children' % len(inner))
        self.blocks.append([])
        pre = []
        if init and init.get('kind'):
            pre += self.stmt(init)
        pre += self.stmt(rng) + self.stmt(beg) + self.stmt(end)
        head = self.loop_head()
        c = self.cond_expr(cond)
        i = self.expr(inc, discard=True)
        # body block: loop variable first
        self.blocks.append([])
        stmts = self.stmt(lv)
        if body.get('kind') == 'CompoundStmt':
            stmts += self.stmt_list(body.get('inner', []))
        else:
            stmts += self.stmt(body)
        btemps = self.blocks.pop()
        b = '{\n' + ''.join('  ' + t + '\n' for t in btemps) + ''.join(indent(s) for s in stmts) + '}'
        temps = self.blocks.pop()
        return ['{\n' + ''.join('  ' + t + '\n' for t in temps) + ''.join(indent(x) for x in pre) +
                indent('for (; %s; %s)%s%s' % (c, i, head, b)) + '}']

    def s_CXXTryStmt(self, n):
        # try { body } catch (const T &) { handler }  with the exception flag: a raising call inside the body jumps to the
        # handler label; a handler runs when the flag names its type (or for catch (...)), otherwise the exception propagates
        if not self.exc_check():
            brk('%s: try/catch met but exceptions are not enabled for this extraction' % self.f.get('name'))
        inner = n['inner']
        body, catches = inner[0], inner[1:]
        self.em.tmp_counter += 1
        k = self.em.tmp_counter
        lbl, end = 'xt_catch%d' % k, 'xt_tryend%d' % k
        if not hasattr(self, 'try_stack'):
            self.try_stack = []
        self.try_stack.append(lbl)
        b = self.block(body)
        self.try_stack.pop()
        out = [b, 'goto %s;' % end, '%s: ;' % lbl]
        for c in catches:
            ci = c.get('inner', [])
            var = ci[0] if ci and ci[0].get('kind') == 'VarDecl' else None
            hbody = ci[-1]
            if var is not None:
                t = self.ty(var).strip_ref()
                exc = 'EXC_' + re.sub(r'\W+', '_', (t.name or 'UNKNOWN').split('::')[-1])
                cond = '__exc == %s' % exc
            else:
                cond = '__exc != 0'
            out.append('if (%s) { __exc = 0; %s goto %s; }' % (cond, self.block(hbody), end))
        out.append('if (__exc) %s' % self.ret_dummy())
        out.append('%s: ;' % end)
        return out

    def s_BreakStmt(self, n):
        return ['break;']

    def s_ContinueStmt(self, n):
        return ['continue;']

    def s_GotoStmt(self, n):
        lbl = self.tu.by_id.get(n.get('targetLabelDeclId'), {}).get('name')
        if not lbl:
            brk('goto without label')
        return ['goto %s;' % lbl]

    def s_LabelStmt(self, n):
        return ['%s: ;' % n['name']] + self.stmt_list(n.get('inner', []))

    def s_SwitchStmt(self, n):
        inner = list(n['inner'])
        pre = []
        if n.get('hasInit'):
            pre += self.stmt(inner.pop(0))
        if n.get('hasVar'):
            pre += self.stmt(inner.pop(0))
        cond, body = inner[0], inner[1]
        c = self.cond_expr(cond)
        s = 'switch (%s) %s' % (c, self.block(body))
        return ['{\n' + ''.join(indent(x) for x in pre + [s]) + '}'] if pre else [s]

    def s_AttributedStmt(self, n):
        return self.stmt_list([c for c in n.get('inner', []) if not c.get('kind', '').endswith('Attr')])

    def s_CaseStmt(self, n):
        inner = n['inner']
        if inner[0].get('kind') == 'ConstantExpr' and 'value' in inner[0]:
            v = '%s /* %s */' % (inner[0]['value'], self.expr(inner[0]).replace('*/', ''))
        else:
            v = self.expr(inner[0])
        return ['case %s: ;' % v] + self.stmt_list(inner[1:])

    def s_DefaultStmt(self, n):
        return ['default: ;'] + self.stmt_list(n['inner'])

    def s_CXXThrowExpr(self, n):
        return self.throw(n)

    def throw(self, n):
        if not self.exc_check():
            brk('%s: throw met but exceptions are not enabled for this extraction' % self.f.get('name'))
        inner = n.get('inner', [])
        exc = 'EXC_UNKNOWN'
        if inner:
            try:
                t = self.ty(inner[0]).strip_ref()
                exc = 'EXC_' + re.sub(r'\W+', '_', (t.name or 'UNKNOWN').split('::')[-1])
            except ExtractionBreak:
                exc = 'EXC_UNKNOWN'
        return ['__exc = %s;' % exc, self.ret_dummy()]

    # ------------------------------------------------------------ expressions
    def expr(self, n, discard=False):
        if discard:
            x = n
            while x.get('kind') in ('ExprWithCleanups', 'ParenExpr'):
                x = x['inner'][0]
            self._discard_id = x.get('id')
        k = n.get('kind')
        self.em.node_kinds.add(k)
        m = getattr(self, 'e_' + k, None)
        if m is None:
            brk('%s: unsupported expression kind %s at %s' % (self.f.get('name'), k, n.get('_begin')))
        return m(n)

    def passthru(self, n):
        return self.expr(n['inner'][0])

    e_ExprWithCleanups = passthru
    e_ConstantExpr = passthru
    e_CXXBindTemporaryExpr = passthru
    e_SubstNonTypeTemplateParmExpr = passthru

    def e_ParenExpr(self, n):
        e = self.expr(n['inner'][0])
        if isinstance(e, (Deref, Addr)):
            return e
        return '(%s)' % e

    def e_IntegerLiteral(self, n):
        t = self.ty(n)
        ct = self.em.ctype(t)
        v = n['value']
        if ct == 'int':
            return v
        return '((%s)%s)' % (ct, v if ct not in ('U_t', 'unsigned int', 'unsigned long') else v + 'u')

    def e_CXXBoolLiteralExpr(self, n):
        return '1' if n['value'] else '0'

    def e_FloatingLiteral(self, n):
        v = str(n['value'])
        if re.fullmatch(r'-?[0-9]+', v):
            v += '.0'
        return v

    def e_CharacterLiteral(self, n):
        return str(n['value'])

    def e_CXXNullPtrLiteralExpr(self, n):
        return '0'

    def e_GNUNullExpr(self, n):
        return '0'

    def e_StringLiteral(self, n):
        return self.em.models.string_literal(self, n['value'])

    def e_PredefinedExpr(self, n):
        return '""'

    def e_CXXThisExpr(self, n):
        if self.lambda_ctx is not None:
            return 'self'
        return 'self'

    def e_ImplicitCastExpr(self, n):
        ck = n.get('castKind')
        sub = n['inner'][0]
        if ck in ('LValueToRValue', 'NoOp', 'FunctionToPointerDecay', 'ConstructorConversion', 'UserDefinedConversion', 'ArrayToPointerDecay'):
            return self.expr(sub)
        if ck in ('IntegralCast', 'IntegralToFloating', 'FloatingToIntegral', 'FloatingCast', 'BooleanToSignedIntegral'):
            return '((%s)%s)' % (self.em.ctype(self.ty(n)), self.expr(sub))
        if ck in ('IntegralToBoolean', 'FloatingToBoolean'):
            return '(%s != 0)' % self.expr(sub)
        if ck == 'PointerToBoolean':
            return '(%s != 0)' % self.expr(sub)
        if ck == 'NullToPointer':
            return '((%s)0)' % self.em.ctype(self.ty(n))
        if ck in ('DerivedToBase', 'UncheckedDerivedToBase'):
            return self.derived_to_base(n, sub)
        if ck == 'BitCast':
            return '((%s)%s)' % (self.em.ctype(self.ty(n)), self.expr(sub))
        brk('%s: unsupported cast kind %s' % (self.f.get('name'), ck))

    def derived_to_base(self, n, sub):
        path = [p['name'] for p in n.get('path', [])]
        e = self.expr(sub)
        st = self.ty(sub)
        sm = self.em.models.lookup(self.em, st.strip_ref())
        if sm is not None and sm.is_iter:
            return e      # iterator base-class conversions are identities on the pointer model
        is_ptr = st.kind == 'ptr'
        if is_ptr and st.inner is not None and st.inner.kind == 'name':
            dq = self.em.resolve_name(st.inner.name, self.scope)
            if dq in self.em.p.record:
                self.em.need_record(dq)   # the base is reached through a member: the derived layout is needed
        for b in path:
            bq = self.em.resolve_name(b, self.scope)
            fld = 'base_' + self.em.rec_cname(bq).split('_')[-1]
            if is_ptr:
                e = '(&(%s)->%s)' % (e, fld)
            else:
                e = '%s.%s' % (e, fld)
        return e

    def explicit_cast(self, n):
        ck = n.get('castKind')
        sub = n['inner'][0]
        if ck in ('NoOp', 'ConstructorConversion', 'UserDefinedConversion', 'LValueToRValue'):
            return self.expr(sub)
        if ck == 'ToVoid':
            return '((void)%s)' % self.expr(sub)
        if ck in ('BaseToDerived',):
            t = self.ty(n)
            if t.kind == 'ptr':
                return '((%s)%s)' % (self.em.ctype(t), self.expr(sub))
            return deref('((%s *)%s)' % (self.em.ctype(t.strip_ref()), addr(self.expr(sub))))
        if ck == 'Dynamic':
            return self.em.models.dynamic_cast(self, n, sub)
        return self.e_ImplicitCastExpr(n)

    e_CXXFunctionalCastExpr = explicit_cast
    e_CXXStaticCastExpr = explicit_cast
    e_CStyleCastExpr = explicit_cast
    e_CXXConstCastExpr = explicit_cast
    e_CXXReinterpretCastExpr = explicit_cast
    e_CXXDynamicCastExpr = explicit_cast

    def e_DeclRefExpr(self, n):
        r = n['referencedDecl']
        k = r['kind']
        if k in ('VarDecl', 'ParmVarDecl'):
            d = self.tu.by_id.get(r['id'])
            if d is None:
                brk('reference to unknown variable %s' % r.get('name'))
            if '_cname' in d and (d['kind'] == 'ParmVarDecl' or '_scope' not in d):
                name = d['_cname']
                t = self.em.ty_of(d['type'], self.scope)
                return deref(name) if t.is_ref() else name
            if '_scope' in d:
                return self.global_ref(d)
            # parameter of an enclosing function (lambda capture by reference) or not yet declared
            if self.lambda_ctx is not None:
                return self.lambda_ctx.capture(self, d)
            brk('%s: variable %s used before declaration' % (self.f.get('name'), r.get('name')))
        if k == 'BindingDecl':
            b = self.bindings.get(r['id'])
            if b is None:
                brk('unknown binding %s' % r.get('name'))
            if isinstance(b, tuple):
                dd = b[1]
                dt = self.em.ty_of(dd['type'], self.scope)
                base = deref(dd['_cname']) if dt.is_ref() else dd['_cname']
                e = '%s.%s' % (paren_lv(base), b[2])
                return deref(e) if b[3] else e
            return self.expr(b)
        if k == 'EnumConstantDecl':
            d = self.tu.by_id.get(r['id'])
            return self.enum_value(d)
        if k in FUNC_KINDS:
            return self.func_ref(r['id'])
        if k == 'DecompositionDecl':
            d = self.tu.by_id[r['id']]
            t = self.em.ty_of(d['type'], self.scope)
            return deref(d['_cname']) if t.is_ref() else d['_cname']
        brk('%s: DeclRefExpr to %s' % (self.f.get('name'), k))

    def enum_value(self, d):
        # value = explicit ConstantExpr or position
        e = d['_enum']
        val = 0
        for c in e.get('inner', []):
            if c.get('kind') != 'EnumConstantDecl':
                continue
            ce = [x for x in c.get('inner', []) if x.get('kind') == 'ConstantExpr']
            if ce and 'value' in ce[0]:
                val = int(ce[0]['value'])
            if c['id'] == d['id']:
                return '%d /*%s*/' % (val, d['name'])
            val += 1
        brk('enum constant not found')

    def global_ref(self, d):
        q = self.tu.qual[d['id']]
        canon = self.tu.canonical(d['id'])
        if canon is not None:
            q = self.tu.qual.get(canon['id'], q)
        if d.get('parentDeclContextId') in self.tu.qual:
            q = self.tu.qual[d['parentDeclContextId']] + '::' + d['name']
        cn = re.sub(r'\W+', '_', q)
        if q not in self.em.globals_needed:
            self.em.globals_needed.append(q)
        return cn

    def func_ref(self, nid):
        r = self.em.lookup_func(self.tu, nid)
        if r is None:
            brk('reference to function without mangled name')
        m, tu, node, has_body = r
        return self.em.func_cname(tu, node)

    def e_MemberExpr(self, n):
        base = n['inner'][0]
        b = self.expr(base)
        name = n['name']
        md = self.tu.by_id.get(n.get('referencedMemberDecl'))
        bt = self.ty(base)
        if md is None:
            # member of a modelled (std) type, e.g. pair.first / it->second
            e = '%s->%s' % (b, name) if n.get('isArrow') else '%s.%s' % (paren_lv(b), name)
            return e
        if md.get('kind') == 'FieldDecl':
            if md.get('_record') in self.em.p.record:
                self.em.need_record(md['_record'])
            ft = self.em.ty_of(md['type'], self.scope)
            if n.get('isArrow'):
                e = '%s->%s' % (b, name)
            else:
                e = '%s.%s' % (paren_lv(b), name)
            return deref(e) if ft.is_ref() else e
        if md.get('kind') == 'VarDecl':
            return self.global_ref(md)
        brk('%s: MemberExpr to %s' % (self.f.get('name'), md.get('kind')))

    def e_UnaryOperator(self, n):
        op = n['opcode']
        sub = n['inner'][0]
        e = self.expr(sub)
        if op == '*':
            return deref(e)
        if op == '&':
            return addr(e)
        if op in ('++', '--'):
            return '(%s%s)' % (e, op) if n.get('isPostfix') else '(%s%s)' % (op, e)
        if op in ('-', '!', '~', '+'):
            return '(%s%s)' % (op, e)
        brk('unary %s' % op)

    def e_BinaryOperator(self, n):
        op = n['opcode']
        l, r = n['inner']
        if op in ('&&', '||'):
            # temporaries on the right-hand side are assigned inside the comma expression, so short-circuit is kept
            return '(%s %s %s)' % (self.expr(l), op, self.expr(r))
        if op == ',':
            return '(%s, %s)' % (self.expr(l), self.expr(r))
        le, re_ = self.expr(l), self.expr(r)
        if op == '=' and self.ty(l).is_ref():
            brk('assignment to reference-typed expression')
        return '(%s %s %s)' % (le, op, re_)

    e_CompoundAssignOperator = e_BinaryOperator

    def e_ConditionalOperator(self, n):
        c, t, e = n['inner']
        if n.get('valueCategory') == 'lvalue':
            return deref('(%s ? %s : %s)' % (self.expr(c), addr(self.expr(t)), addr(self.expr(e))))
        return '(%s ? %s : %s)' % (self.expr(c), self.expr(t), self.expr(e))

    def e_MaterializeTemporaryExpr(self, n):
        sub = n['inner'][0]
        t = self.ty(n)
        e = self.expr(sub)
        if isinstance(e, Deref) or getattr(e, 'is_lv', False):
            return e
        tmp = self.new_tmp(self.em.ctype(t.strip_ref()))
        return deref('(%s = %s, &%s)' % (tmp, e, tmp))

    def e_CXXDefaultArgExpr(self, n):
        brk('default argument expression outside a call')

    def e_CXXDefaultInitExpr(self, n):
        brk('default member initializer outside a constructor')

    def e_InitListExpr(self, n):
        t = self.ty(n)
        if t.kind == 'name' and t.name in BUILTIN_C:
            inner = n.get('inner', [])
            return self.expr(inner[0]) if inner else '0'
        m = self.em.models.lookup(self.em, t)
        if m is not None:
            return m.init_list(self, n)
        if t.kind == 'name' and t.name in self.em.p.record and not t.args:
            # aggregate initialisation: fields in declaration order
            tu, r = self.em.p.record[t.name]
            fields = [c for c in r.get('inner', []) if c.get('kind') == 'FieldDecl']
            abstract = self.em.opts.get('abstract_fields', {}).get(t.name)
            inner = n.get('inner', [])
            if len(inner) > len(fields):
                brk('aggregate initialiser with too many elements for %s' % t.name)
            self.em.need_record(t.name)
            tmp = self.new_tmp('struct ' + self.em.rec_cname(t.name))
            parts = []
            for f, e in zip(fields, inner):
                if abstract is not None and f['name'] not in abstract:
                    continue
                parts.append('%s.%s = %s' % (tmp, f['name'], self.expr(e)))
            parts.append(tmp)
            return '(%s)' % ', '.join(parts)
        brk('InitListExpr of type %r' % t)

    def e_CXXStdInitializerListExpr(self, n):
        t = self.ty(n)
        m = self.em.models.lookup(self.em, t)
        if m is None:
            brk('initializer_list of %r' % t)
        return m.from_array(self, n['inner'][0])

    def e_CXXScalarValueInitExpr(self, n):
        return '((%s)0)' % self.em.ctype(self.ty(n))

    def e_ImplicitValueInitExpr(self, n):
        return '((%s)0)' % self.em.ctype(self.ty(n))

    def e_CXXThrowExpr(self, n):
        brk('throw inside an expression')

    def e_UnaryExprOrTypeTraitExpr(self, n):
        brk('sizeof/alignof')

    def e_LambdaExpr(self, n):
        return self.em.models.lambda_expr(self, n)

    # ---- construction
    def e_CXXConstructExpr(self, n):
        t = self.ty(n)
        args = [a for a in n.get('inner', [])]
        return self.construct(t, args, n['ctorType']['qualType'], n)

    e_CXXTemporaryObjectExpr = e_CXXConstructExpr

    def construct(self, t, args, ctor_type, node=None):
        em = self.em
        t = Ty('name', t.name, t.args, False)
        cty = em.canon(parse_type(ctor_type), self.scope)
        if t.name in em.p.record and not t.args:
            # copy / move construction -> C struct copy (classes here have implicit copy semantics over value-type models)
            if len(cty.params) == 1 and cty.params[0].is_ref() and cty.params[0].inner.name == t.name and not self.user_copy_ctor(t.name):
                return rvalue(self.expr(args[0]))
            # find the constructor by signature
            tu, r = em.p.record[t.name]
            cands = []
            for (m, (ftu, f)) in list(em.p.decl_any.items()):
                if f['kind'] != 'CXXConstructorDecl':
                    continue
                if ftu.qual.get(f['id'], '').rsplit('::', 1)[0] != t.name and self.ctor_owner(ftu, f) != t.name:
                    continue
                fty = em.ty_of(f['type'], f.get('_scope', []))
                if [repr(x) for x in fty.params] == [repr(x) for x in cty.params]:
                    cands.append((m, ftu, f))
                elif not cty.params and not args and fty.params and self.all_defaulted(ftu, f):
                    cands.append((m, ftu, f))
            if not cands:
                if not cty.params:
                    # implicit default constructor: default-construct every field
                    return self.implicit_default(t.name)
                brk('%s: constructor %s of %s not found' % (self.f.get('name'), ctor_type, t.name))
            m, ftu, f = cands[0]
            if f.get('explicitlyDefaulted') == 'default' or (m not in em.p.defn and f.get('isImplicit')):
                return self.implicit_default(t.name)
            return self.call_function(m, ftu, f, args, None)
        m = em.models.lookup(em, t)
        if m is not None:
            args = [a for a in args if a.get('kind') != 'CXXDefaultArgExpr']
            return m.construct(self, cty, args, node)
        if t.name in BUILTIN_C:
            return self.expr(args[0]) if args else '0'
        brk('%s: construct of unmapped type %r' % (self.f.get('name'), t))

    def all_defaulted(self, ftu, f):
        pn = [c for c in f.get('inner', []) if c.get('kind') == 'ParmVarDecl']
        return all(any(not x.get('kind', '').endswith('Attr') for x in p.get('inner', [])) for p in pn)

    def ctor_owner(self, tu, f):
        pc = f.get('parentDeclContextId')
        if pc and pc in tu.qual:
            return tu.qual[pc]
        return tu.qual.get(f['id'], '').rsplit('::', 1)[0]

    def user_copy_ctor(self, q):
        tu, r = self.em.p.record[q]
        dd = r.get('definitionData', {})
        cc = dd.get('copyCtor', {})
        return bool(cc.get('userDeclared')) and not cc.get('trivial') and not cc.get('defaulted', False) and self._has_user_copy(tu, r)

    def _has_user_copy(self, tu, r):
        for c in r.get('inner', []):
            if c.get('kind') == 'CXXConstructorDecl' and not c.get('isImplicit') and not c.get('explicitlyDefaulted') and not c.get('explicitlyDeleted'):
                ps = [x for x in c.get('inner', []) if x.get('kind') == 'ParmVarDecl']
                if len(ps) == 1 and '&' in ps[0]['type']['qualType'] and r['name'] in ps[0]['type']['qualType']:
                    return True
        return False

    def implicit_default(self, q):
        """value of T() for a class with an implicit/defaulted default constructor"""
        em = self.em
        em.need_record(q)
        tu, r = em.p.record[q]
        tmp = self.new_tmp('struct ' + em.rec_cname(q))
        parts = []
        abstract = em.opts.get('abstract_fields', {}).get(q)
        for c in r.get('inner', []):
            if c.get('kind') != 'FieldDecl':
                continue
            if abstract is not None and c['name'] not in abstract:
                continue
            ft = em.ty_of(c['type'], q.split('::'))
            dm = [x for x in c.get('inner', []) if x.get('kind', '').endswith('Expr') or x.get('kind', '').endswith('Literal')]
            if dm:
                parts.append('%s.%s = %s' % (tmp, c['name'], self.expr(dm[0])))
            else:
                dv = self.default_value(ft)
                if dv is not None:
                    parts.append('%s.%s = %s' % (tmp, c['name'], dv))
        parts.append(tmp)
        return '(%s)' % ', '.join(parts)

    def construct_by_args(self, vt, args):
        """T(args...) where the constructor is chosen by the static types of the arguments (emplace-style)"""
        em = self.em
        if vt.name in em.p.record and not vt.args:
            want = [repr(Ty('name', self.ty(a).strip_ref().name, self.ty(a).strip_ref().args)) for a in args]
            for (m, (ftu, f)) in list(em.p.decl_any.items()):
                if f['kind'] != 'CXXConstructorDecl' or self.ctor_owner(ftu, f) != vt.name:
                    continue
                fty = em.ty_of(f['type'], f.get('_scope', []))
                have = [repr(Ty('name', x.strip_ref().name, x.strip_ref().args)) for x in fty.params if x.strip_ref().kind == 'name']
                if have == want and len(fty.params) == len(args):
                    return self.call_function(m, ftu, f, args, None)
                pn = [c for c in f.get('inner', []) if c.get('kind') == 'ParmVarDecl']
                if len(args) < len(fty.params) and have[:len(args)] == want and all(
                        any(not x.get('kind', '').endswith('Attr') for x in p.get('inner', [])) for p in pn[len(args):]):
                    return self.call_function(m, ftu, f, args, None)
            brk('%s: no constructor of %s for emplace args %s' % (self.f.get('name'), vt.name, want))
        m = em.models.lookup(em, vt)
        if m is not None:
            return m.construct(self, None, args, None)
        brk('emplace of %r' % vt)

    # ---- calls
    def call_args(self, f, args, ftu):
        """emit the argument list of a call to extracted/declared function node f"""
        em = self.em
        fty = em.ty_of(f['type'], f.get('_scope', []))
        pnodes = [c for c in f.get('inner', []) if c.get('kind') == 'ParmVarDecl']
        out = []
        for i, pt in enumerate(fty.params):
            if i < len(args) and args[i].get('kind') != 'CXXDefaultArgExpr':
                a = args[i]
                e = self.expr(a)
            else:
                # default argument: the expression hangs off the callee's ParmVarDecl (of the declaration that has it)
                dn = self.default_arg_node(ftu, f, i)
                sub = FuncEmitter(em, ftu, f)
                sub.blocks = self.blocks
                e = sub.expr(dn)
            out.append(addr(e) if pt.is_ref() else rvalue(e))
        return out

    def default_arg_node(self, ftu, f, i):
        n = f
        seen = 0
        while n is not None and seen < 20:
            pnodes = [c for c in n.get('inner', []) if c.get('kind') == 'ParmVarDecl']
            if i < len(pnodes):
                d = [x for x in pnodes[i].get('inner', []) if not x.get('kind', '').endswith('Attr')]
                if d:
                    return d[0]
            n = ftu.by_id.get(n.get('previousDecl'))
            seen += 1
        # search all declarations with the same mangled name
        for tu in self.em.p.tus:
            for g in tu.funcs:
                if g.get('mangledName') == f.get('mangledName'):
                    pnodes = [c for c in g.get('inner', []) if c.get('kind') == 'ParmVarDecl']
                    if i < len(pnodes):
                        d = [x for x in pnodes[i].get('inner', []) if not x.get('kind', '').endswith('Attr')]
                        if d:
                            return d[0]
        brk('default argument %d of %s not found' % (i, f.get('name')))

    def call_function(self, m, ftu, f, args, self_arg):
        em = self.em
        cname = em.func_cname(ftu, f)
        alias = em.opts.get('call_alias', {}).get((em.func_cname(self.tu, self.f) if self.f.get('mangledName') else None, cname))
        if alias:
            # this call site is bound to a separately named, body-less copy of the callee (used for recursive calls,
            # which are verified against the callee's contract like any other call)
            fty = em.ty_of(f['type'], f.get('_scope', []))
            alist = ([self_arg] if self_arg is not None else []) + self.call_args(f, args, ftu)
            if alias not in em.external_protos:
                proto, rett, meta = em.proto_of(ftu, f)
                em.external_protos[alias] = {'proto': proto.replace(cname + '(', alias + '(', 1), 'meta': meta, 'ret': rett}
            if 'noexcept' not in f['type']['qualType']:
                self._stmt_may_throw = True
            call = '%s(%s)' % (alias, ', '.join(alist))
            return deref(call) if fty.inner.is_ref() else call
        fty = em.ty_of(f['type'], f.get('_scope', []))
        alist = ([self_arg] if self_arg is not None else []) + self.call_args(f, args, ftu)
        has_body = m in em.p.defn
        if has_body and cname not in em.stub:
            em.enqueue(m)
        else:
            self.em.declare_external(self, ftu, f, cname)
        if 'noexcept' not in f['type']['qualType'] and f['kind'] != 'CXXDestructorDecl':
            self._stmt_may_throw = True
        call = '%s(%s)' % (cname, ', '.join(alist))
        if fty.inner.is_ref():
            return deref(call)
        return call

    def resolve_callee(self, nid):
        r = self.em.lookup_func(self.tu, nid)
        return r

    def e_CallExpr(self, n):
        callee = n['inner'][0]
        args = n['inner'][1:]
        c = callee
        while c.get('kind') in ('ImplicitCastExpr', 'ParenExpr'):
            c = c['inner'][0]
        if c.get('kind') == 'DeclRefExpr' and c['referencedDecl']['kind'] in FUNC_KINDS:
            rid = c['referencedDecl']['id']
            r = self.em.lookup_func(self.tu, rid)
            if r is None or (r[0] not in self.em.p.decl_any):
                return self.em.models.free_call(self, c['referencedDecl'], args, n)
            m, ftu, f, has_body = r
            return self.call_function(m, ftu, f, args, None)
        # call through a callable object / function pointer
        return self.em.models.indirect_call(self, callee, args, n)

    def e_CXXMemberCallExpr(self, n):
        callee = n['inner'][0]
        args = n['inner'][1:]
        c = callee
        while c.get('kind') in ('ParenExpr',):
            c = c['inner'][0]
        if c.get('kind') != 'MemberExpr':
            brk('member call through %s' % c.get('kind'))
        base = c['inner'][0]
        mid = c.get('referencedMemberDecl')
        r = self.em.lookup_func(self.tu, mid) if mid in self.tu.by_id else None
        if r is None or r[0] not in self.em.p.decl_any:
            return self.em.models.member_call(self, base, c, args, n)
        m, ftu, f, has_body = r
        b = self.expr(base)
        self_arg = b if c.get('isArrow') else addr(b)
        if f.get('virtual') or self.is_virtual(ftu, f):
            return self.em.virtual_call(self, m, ftu, f, args, self_arg, base)
        return self.call_function(m, ftu, f, args, self_arg)

    def is_virtual(self, ftu, f):
        n = f
        seen = 0
        while n is not None and seen < 20:
            if n.get('virtual'):
                return True
            n = ftu.by_id.get(n.get('previousDecl'))
            seen += 1
        return False

    def e_CXXOperatorCallExpr(self, n):
        callee = n['inner'][0]
        args = n['inner'][1:]
        c = callee
        while c.get('kind') in ('ImplicitCastExpr', 'ParenExpr'):
            c = c['inner'][0]
        rd = c.get('referencedDecl', {})
        rid = rd.get('id')
        r = self.em.lookup_func(self.tu, rid) if rid in self.tu.by_id else None
        if r is None or r[0] not in self.em.p.decl_any:
            return self.em.models.operator_call(self, rd, args, n)
        m, ftu, f, has_body = r
        if f['kind'] == 'CXXMethodDecl':
            if f.get('isImplicit') or (f.get('explicitlyDefaulted') and m not in self.em.p.defn) or m not in self.em.p.decl_any:
                pass
            if (f.get('isImplicit') or f.get('explicitlyDefaulted')) and f.get('name') == 'operator=':
                l = self.expr(args[0])
                rr = self.expr(args[1])
                return self.assign(n, l, rr)
            self_arg = addr(self.expr(args[0]))
            return self.call_function(m, ftu, f, args[1:], self_arg)
        return self.call_function(m, ftu, f, args, None)

    def e_CXXNewExpr(self, n):
        return self.em.models.new_expr(self, n)

    def e_CXXDeleteExpr(self, n):
        return self.em.models.delete_expr(self, n)


def rvalue(e):
    return e


def mark_lv(e):
    return e


def paren_lv(b):
    if isinstance(b, (Deref, Addr)) or re.fullmatch(r'[A-Za-z_][A-Za-z_0-9]*((\.|->)[A-Za-z_][A-Za-z_0-9]*)*', b):
        return b
    return '(%s)' % b


def indent(s):
    return ''.join('  ' + l + '\n' for l in s.split('\n'))
