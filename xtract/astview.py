#!/usr/bin/env python3
"""Debug helper: print a compact tree of a clang JSON AST dump (concatenated objects)."""
import json, sys
def load_many(path):
    dec = json.JSONDecoder(); s = open(path).read(); i = 0; out = []
    n = len(s)
    while i < n:
        while i < n and s[i].isspace(): i += 1
        if i >= n: break
        o, j = dec.raw_decode(s, i); out.append(o); i = j
    return out
def show(n, d=0, maxd=99):
    if d > maxd: return
    k = n.get('kind', '?')
    bits = [k]
    for f in ('name', 'opcode', 'value', 'castKind', 'valueCategory', 'mangledName'):
        if f in n: bits.append('%s=%s' % (f, n[f]))
    if 'type' in n: bits.append('T=' + n['type'].get('qualType', '?'))
    if 'referencedDecl' in n:
        r = n['referencedDecl']; bits.append('ref=%s:%s:%s' % (r.get('kind'), r.get('name'), r.get('id')))
    if 'referencedMemberDecl' in n: bits.append('mref=' + n['referencedMemberDecl'])
    if n.get('isImplicit'): bits.append('implicit')
    if 'id' in n: bits.append(n['id'])
    print('  ' * d + ' '.join(bits))
    for c in n.get('inner', []):
        show(c, d + 1, maxd)
if __name__ == '__main__':
    objs = load_many(sys.argv[1]); pat = sys.argv[2] if len(sys.argv) > 2 else None
    def walk(n):
        if pat and n.get('kind') in ('CXXMethodDecl', 'FunctionDecl', 'CXXConstructorDecl') and pat in n.get('name', '') and any(c.get('kind') == 'CompoundStmt' for c in n.get('inner', [])):
            show(n); print()
        for c in n.get('inner', []): walk(c)
    if pat:
        for o in objs: walk(o)
    else:
        for o in objs: show(o, 0, 2)
