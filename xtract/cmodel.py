"""Registry that maps libstdc++ types / calls met in the extracted code onto the bounded C models of /verif/cmodel."""
import re

from cxxtypes import Ty, parse_type
from xtract import brk, addr, deref, Deref, Addr, Elem, NestedElem, BUILTIN_C, paren_lv


class Model:
    is_iter = False
    is_container = False

    def __init__(self, cname, ctype):
        self.cname = cname
        self.ctype = ctype

    def default_ctor(self, fe):
        return None

    def construct(self, fe, cty, args, node):
        brk('model %s: construct %r' % (self.cname, cty))

    def init_list(self, fe, n):
        brk('model %s: init list' % self.cname)

    def member(self, fe, base_e, name, args, node):
        brk('model %s: member %s/%d not modelled' % (self.cname, name, len(args)))


class IterModel(Model):
    is_iter = True

    def __init__(self, elem_ctype):
        Model.__init__(self, 'it', elem_ctype + ' *')
        self.elem = elem_ctype

    def construct(self, fe, cty, args, node):
        if len(args) == 1:
            return fe.expr(args[0])
        if not args:
            return '((%s)0)' % self.ctype
        brk('iterator constructor with %d args' % len(args))

    def default_ctor(self, fe):
        return None


class PairModel(Model):
    def __init__(self, reg, em, ty):
        a, b = ty.args
        self.a, self.b = a, b
        cname = 'pair_%s_%s' % (em.abbr(a), em.abbr(b))
        Model.__init__(self, cname, 'struct ' + cname)
        self.decl = None
        ca = em.cdecl(a.strip_ref(), 'first') if not a.is_ref() else em.cdecl(a, 'first')
        cb = em.cdecl(b.strip_ref(), 'second') if not b.is_ref() else em.cdecl(b, 'second')
        ta = em.ctype(a.strip_ref() if not a.is_ref() else a)
        tb = em.ctype(b.strip_ref() if not b.is_ref() else b)
        em.typeorder.append(('inst', cname, 'struct %s { %s; %s; };\nstatic inline struct %s %s_mk(%s a, %s b) { struct %s p; p.first = a; p.second = b; return p; }' % (
            cname, ca, cb, cname, cname, ta, tb, cname)))

    def construct(self, fe, cty, args, node):
        if len(args) == 1:
            # copy / converting construction from another pair with the same layout
            return fe.expr(args[0])
        if len(args) == 2:
            return '%s_mk(%s, %s)' % (self.cname, fe.expr(args[0]), fe.expr(args[1]))
        if not args:
            tmp = fe.new_tmp(self.ctype)
            parts = []
            for fld, t in (('first', self.a), ('second', self.b)):
                dv = fe.default_value(t)
                if dv is not None:
                    parts.append('%s.%s = %s' % (tmp, fld, dv))
            parts.append(tmp)
            return '(%s)' % ', '.join(parts)
        brk('pair constructor with %d args' % len(args))

    def default_ctor(self, fe):
        return self.construct(fe, None, [], None)

    def init_list(self, fe, n):
        return self.construct(fe, None, n.get('inner', []), n)


def pure_expr(e):
    """no assignment / increment inside: safe to mention twice"""
    import re as _re
    return not _re.search(r'(?<![=!<>])=(?!=)|\+\+|--', e)


def scalar(ty):
    return ty.kind == 'ptr' or (ty.kind == 'name' and ty.name in BUILTIN_C)


class StringModel(Model):
    def __init__(self):
        Model.__init__(self, 'str', 'struct cm_string')

    def default_ctor(self, fe):
        return 'cm_str_new()'

    def construct(self, fe, cty, args, node):
        if not args:
            return 'cm_str_new()'
        if len(args) >= 1:
            return fe.expr(args[0])     # copy / move / from a literal (literals are already cm_string values)
        brk('string constructor %r' % cty)

    def member(self, fe, b, name, args, node):
        if name == 'empty' and not args:
            return 'cm_str_empty(%s)' % addr(b)
        if name in ('size', 'length') and not args:
            return '%s.n' % paren_lv(b)
        if name == 'clear' and not args:
            return '(%s.n = 0)' % paren_lv(b)
        return Model.member(self, fe, b, name, args, node)


class ContainerModel(Model):
    is_container = True
    KIND = None

    def cap(self, em):
        caps = em.opts.get('caps', {})
        return caps.get(self.cname, caps.get(self.KIND, caps.get('*', 4)))

    def default_ctor(self, fe):
        return '%s_new()' % self.cname

    def mk_value(self, fe, args, vt):
        """value of type vt built from emplace-style args"""
        if len(args) == 1 and scalar(vt):
            return '((%s)%s)' % (fe.em.ctype(vt), fe.expr(args[0]))
        if not args and scalar(vt):
            return '((%s)0)' % fe.em.ctype(vt)
        if not args:
            dv = fe.default_value(vt)
            if dv is not None:
                return dv
        if len(args) == 1:
            at = fe.ty(args[0]).strip_ref()
            if at.kind == 'name' and vt.kind == 'name' and repr(Ty('name', at.name, at.args)) == repr(Ty('name', vt.name, vt.args)):
                return fe.expr(args[0])
        ct = 'void (' + ', '.join(a['type']['qualType'] + (' &' if a.get('valueCategory') == 'lvalue' and not scalar(fe.ty(a)) else '') for a in args) + ')'
        return fe.construct_by_args(vt, args)


class VectorModel(ContainerModel):
    KIND = 'vector'

    def __init__(self, reg, em, ty, kind='vector'):
        self.elem = ty.args[0]
        cname = 'vec_' + em.abbr(self.elem)
        Model.__init__(self, cname, 'struct ' + cname)
        self.ect = em.ctype(self.elem)
        em.typeorder.append(('inst', cname, 'CM_VECTOR(%s, %s, %d)' % (cname, self.ect, self.cap(em))))
        self.iter = IterModel(self.ect)

    def construct(self, fe, cty, args, node):
        if not args:
            return self.default_ctor(fe)
        if len(args) == 1:
            at = fe.ty(args[0]).strip_ref()
            if at.name in ('std::vector',):
                return fe.expr(args[0])        # copy / move
            if at.name == 'std::initializer_list':
                return fe.expr(args[0])
            if scalar(at):                     # vector(n)
                dv = fe.default_value(self.elem)
                return '%s_new_n(%s, %s)' % (self.cname, fe.expr(args[0]), dv if dv is not None else self.zero(fe))
        if len(args) == 2:
            a0 = fe.ty(args[0]).strip_ref()
            if scalar(a0) and a0.kind != 'ptr':  # vector(n, v)
                return '%s_new_n(%s, %s)' % (self.cname, fe.expr(args[0]), fe.expr(args[1]))
            m0 = fe.em.models.lookup(fe.em, a0)
            if a0.kind == 'ptr' or (m0 is not None and m0.is_iter):   # vector(first, last)
                return '%s_from_range(%s, %s)' % (self.cname, fe.expr(args[0]), fe.expr(args[1]))
        brk('vector constructor %r' % cty)

    def zero(self, fe):
        if scalar(self.elem):
            return '((%s)0)' % self.ect
        tmp = fe.new_tmp(self.ect)
        return tmp

    def init_list(self, fe, n):
        return self.from_array(fe, n)

    def from_array(self, fe, n):
        # n: InitListExpr (possibly under MaterializeTemporaryExpr) of element values
        x = n
        while x.get('kind') in ('MaterializeTemporaryExpr', 'ImplicitCastExpr', 'ExprWithCleanups', 'CXXStdInitializerListExpr'):
            x = x['inner'][0]
        if x.get('kind') != 'InitListExpr':
            brk('initializer list source %s' % x.get('kind'))
        elems = x.get('inner', [])
        tmp = fe.new_tmp(self.ctype)
        parts = ['%s = %s_new()' % (tmp, self.cname)]
        for e in elems:
            parts.append('%s_push_back(&%s, %s)' % (self.cname, tmp, fe.expr(e)))
        parts.append(tmp)
        return '(%s)' % ', '.join(parts)

    def member(self, fe, b, name, args, node):
        c = self.cname
        A = [fe.expr(a) for a in args] if name not in ('emplace_back', 'emplace') else None
        pb = addr(b)
        if name in ('size', 'empty', 'clear', 'pop_back', 'begin', 'end', 'cbegin', 'cend') and not args:
            return '%s_%s(%s)' % (c, name.lstrip('c') if name in ('cbegin', 'cend') else name, pb)
        if name in ('back', 'front') and not args:
            return deref('%s_%s(%s)' % (c, name, pb))
        if name == 'push_back':
            return '%s_push_back(%s, %s)' % (c, pb, A[0])
        if name == 'emplace_back':
            return '%s_push_back(%s, %s)' % (c, pb, self.mk_value(fe, args, self.elem))
        if name in ('operator[]', 'at') and len(args) == 1:
            # element access as an array-index lvalue (bounds asserted by NAME_chk) rather than through a pointer-returning
            # function: cheaper for CBMC and keeps the points-to reasoning trivial
            if isinstance(b, Elem) and getattr(b, 'row_like', False):
                # indexing a row: the plain row address is enough for an lvalue path (reads and writes by index are precise); the
                # case-split address NAME_at() is only needed where a pointer into the row escapes (begin(), reference arguments)
                pb = Addr('(&%s)' % b)
                pb.lv = b
            if pure_expr(b) and pure_expr(A[0]):
                if '.e[' in b or '->e[' in b:
                    # CBMC 6.11 loses track of pointers of the shape &outer.e[sym].e[k] (reads and writes through them become
                    # arbitrary: spurious failures); forming the row address first is handled precisely
                    ne = NestedElem('(%s)->e[%s_chk(%s, %s)]' % (pb, c, pb, A[0]))
                    ne.row, ne.idx = pb, '%s_chk(%s, %s)' % (c, pb, A[0])
                    ne.outer = b if isinstance(b, Elem) else None
                    return ne
                el = Elem('%s.e[%s_chk(%s, %s)]' % (paren_lv(b), c, pb, A[0]))
                el.cont, el.cname, el.idx = pb, c, A[0]
                try:
                    em_ = fe.em.models.lookup(fe.em, self.elem) if self.elem.kind == 'name' else None
                except Exception:
                    em_ = None
                # a row (an element that is itself a container): its address is formed by the case-split NAME_at() unless the index
                # is a literal, so that pointers into the row (begin(), &row[0]) are dereferenced precisely (see xtract.NestedElem)
                el.row_like = em_ is not None and getattr(em_, 'is_container', False) and not re.fullmatch(r'\(?\(?\(U_t\)\d+\)?\)?|\d+', A[0].strip())
                return el
            return deref('%s_idx(%s, %s)' % (c, pb, A[0]))
        if name == 'reserve':
            return '((void)0)'
        if name == 'erase' and len(args) == 1:
            return '%s_erase(%s, %s)' % (c, pb, A[0])
        if name == 'erase' and len(args) == 2:
            return '%s_erase_range(%s, %s, %s)' % (c, pb, A[0], A[1])
        if name == 'insert' and len(args) == 2:
            return '%s_insert(%s, %s, %s)' % (c, pb, A[0], A[1])
        if name == 'insert' and len(args) == 3:
            return '%s_insert_range(%s, %s, %s, %s)' % (c, pb, A[0], A[1], A[2])
        if name == 'resize' and len(args) == 2:
            return '%s_resize(%s, %s, %s)' % (c, pb, A[0], A[1])
        if name == 'resize' and len(args) == 1:
            dv = fe.default_value(self.elem)
            return '%s_resize(%s, %s, %s)' % (c, pb, A[0], dv if dv is not None else self.zero(fe))
        if name == 'assign' and len(args) == 2:
            return '%s_assign_n(%s, %s, %s)' % (c, pb, A[0], A[1])
        if name == 'swap' and len(args) == 1:
            return '%s_swap(%s, %s)' % (c, pb, addr(A[0]))
        if name == 'data' and not args:
            return '%s_begin(%s)' % (c, pb)
        return Model.member(self, fe, b, name, args, node)


class QueueModel(ContainerModel):
    """std::queue<T> on the (shared) vector model instance of T: push at the back, pop at the front"""
    KIND = 'queue'

    def __init__(self, vm):
        Model.__init__(self, vm.cname, vm.ctype)
        self.v = vm
        self.elem = vm.elem

    def default_ctor(self, fe):
        return self.v.default_ctor(fe)

    def construct(self, fe, cty, args, node):
        return self.v.construct(fe, cty, args, node)

    def member(self, fe, b, name, args, node):
        c = self.cname
        pb = addr(b)
        if name in ('push', 'emplace') and len(args) == 1:
            return '%s_push_back(%s, %s)' % (c, pb, fe.expr(args[0]))
        if name == 'pop' and not args:
            return '%s_pop_front(%s)' % (c, pb)
        if name in ('front', 'back', 'empty', 'size') and not args:
            return self.v.member(fe, b, name, args, node)
        return Model.member(self, fe, b, name, args, node)


class MapModel(ContainerModel):
    KIND = 'map'

    def __init__(self, reg, em, ty, kind='map'):
        self.key, self.val = ty.args[0], ty.args[1]
        self.kind = kind
        key_nc = Ty(self.key.kind, self.key.name, self.key.args, False, self.key.inner)
        cname = '%s_%s_%s' % ('map' if kind == 'map' else 'umap', em.abbr(key_nc), em.abbr(self.val))
        Model.__init__(self, cname, 'struct ' + cname)
        self.pair = reg.lookup(em, Ty('name', 'std::pair', [Ty(key_nc.kind, key_nc.name, key_nc.args, True, key_nc.inner), self.val]))
        self.kct = em.ctype(key_nc)
        self.vct = em.ctype(self.val)
        lt, eq = reg.key_ops(em, key_nc)
        macro = 'CM_MAP' if kind == 'map' else 'CM_UMAP'
        em.typeorder.append(('inst', cname, '%s(%s, %s, %s, %s, %d, %s, %s)' % (macro, cname, self.pair.cname, self.kct, self.vct, self.cap(em), lt, eq)))
        self.iter = IterModel(self.pair.ctype)

    def construct(self, fe, cty, args, node):
        if not args:
            return self.default_ctor(fe)
        if len(args) == 1:
            at = fe.ty(args[0]).strip_ref()
            if at.name in ('std::map', 'std::unordered_map'):
                return fe.expr(args[0])
        brk('map constructor %r' % cty)

    def member(self, fe, b, name, args, node):
        c = self.cname
        pb = addr(b)
        if name in ('size', 'empty', 'clear', 'begin', 'end', 'cbegin', 'cend') and not args:
            return '%s_%s(%s)' % (c, name[1:] if name in ('cbegin', 'cend') else name, pb)
        if name in ('reserve', 'rehash'):
            return '((void)0)'
        if name in ('find', 'count', 'lower_bound', 'upper_bound') and len(args) == 1:
            return '%s_%s(%s, %s)' % (c, name, pb, fe.expr(args[0]))
        if name == 'at' and len(args) == 1:
            fe._stmt_may_throw = True
            return deref('%s_at(%s, %s)' % (c, pb, fe.expr(args[0])))
        if name == 'operator[]' and len(args) == 1:
            dv = fe.default_value(self.val)
            if dv is None:
                dv = '((%s)0)' % self.vct if scalar(self.val) else fe.new_tmp(self.vct)
            return deref('%s_idx(%s, %s, %s)' % (c, pb, fe.expr(args[0]), dv))
        if name in ('emplace', 'try_emplace') and len(args) >= 1:
            k = fe.expr(args[0])
            v = self.mk_value(fe, args[1:], self.val)
            return self.ins_result(fe, node, pb, '%s_emplace(%s, %s, %s)' % (c, pb, k, v))
        if name == 'insert' and len(args) == 1:
            at = fe.ty(args[0]).strip_ref()
            e = fe.expr(args[0])
            tmp = fe.new_tmp(self.pair.ctype)
            return self.ins_result(fe, node, pb, '(%s = %s, %s_emplace(%s, %s.first, %s.second))' % (tmp, e, c, pb, tmp, tmp))
        if name == 'insert_or_assign' and len(args) == 2:
            return self.ins_result(fe, node, pb, '%s_insert_or_assign(%s, %s, %s)' % (c, pb, fe.expr(args[0]), fe.expr(args[1])))
        if name == 'erase' and len(args) == 1:
            at = fe.ty(args[0]).strip_ref()
            m = fe.em.models.lookup(fe.em, at)
            if m is not None and m.is_iter:
                return '%s_erase_it(%s, %s)' % (c, pb, fe.expr(args[0]))
            return '%s_erase_key(%s, %s)' % (c, pb, fe.expr(args[0]))
        return Model.member(self, fe, b, name, args, node)


def _map_ins_result(self, fe, node, pb, call):
    """emplace / insert / insert_or_assign return pair<iterator, bool> (was a new element inserted?): built from the model's
    element pointer and the growth of the map, when the source uses the result"""
    if not fe.result_used(node):
        return call
    try:
        rt = fe.ty(node).strip_ref()
        pm = fe.em.models.lookup(fe.em, rt) if rt.kind == 'name' and rt.name == 'std::pair' else None
    except Exception:
        pm = None
    if pm is not None and isinstance(pm, PairModel):
        return '({ U_t xt_n0 = (%s)->n; %s *xt_ip = %s; %s_mk(xt_ip, (%s)->n != xt_n0); })' % (pb, self.pair.ctype, call, pm.cname, pb)
    return call


MapModel.ins_result = _map_ins_result


class SetModel(ContainerModel):
    KIND = 'set'

    def __init__(self, reg, em, ty, kind='set'):
        self.key = ty.args[0]
        cname = '%s_%s' % ('set' if kind == 'set' else 'uset', em.abbr(self.key))
        Model.__init__(self, cname, 'struct ' + cname)
        self.kct = em.ctype(self.key)
        lt, eq = reg.key_ops(em, self.key)
        em.typeorder.append(('inst', cname, 'CM_SET(%s, %s, %d, %s, %s)' % (cname, self.kct, self.cap(em), lt, eq)))
        self.iter = IterModel(self.kct)

    def construct(self, fe, cty, args, node):
        if not args:
            return self.default_ctor(fe)
        if len(args) == 1:
            at = fe.ty(args[0]).strip_ref()
            if at.name in ('std::set', 'std::unordered_set'):
                return fe.expr(args[0])
            if at.name == 'std::initializer_list':
                return self.from_array(fe, args[0])
        if len(args) == 2:
            return '%s_from_range(%s, %s)' % (self.cname, fe.expr(args[0]), fe.expr(args[1]))
        brk('set constructor %r' % cty)

    def from_array(self, fe, n):
        x = n
        while x.get('kind') in ('MaterializeTemporaryExpr', 'ImplicitCastExpr', 'ExprWithCleanups', 'CXXStdInitializerListExpr'):
            x = x['inner'][0]
        elems = x.get('inner', [])
        tmp = fe.new_tmp(self.ctype)
        parts = ['%s = %s_new()' % (tmp, self.cname)]
        for e in elems:
            parts.append('%s_insert(&%s, %s)' % (self.cname, tmp, fe.expr(e)))
        parts.append(tmp)
        return '(%s)' % ', '.join(parts)

    init_list = from_array

    def member(self, fe, b, name, args, node):
        c = self.cname
        pb = addr(b)
        if name in ('size', 'empty', 'clear', 'begin', 'end', 'cbegin', 'cend') and not args:
            return '%s_%s(%s)' % (c, name[1:] if name in ('cbegin', 'cend') else name, pb)
        if name in ('reserve', 'rehash'):
            return '((void)0)'
        if name in ('find', 'count') and len(args) == 1:
            return '%s_%s(%s, %s)' % (c, name, pb, fe.expr(args[0]))
        if name in ('insert', 'emplace') and len(args) == 1:
            return '%s_insert(%s, %s)' % (c, pb, fe.expr(args[0]))
        if name == 'insert' and len(args) == 2:
            return '%s_insert_range(%s, %s, %s)' % (c, pb, fe.expr(args[0]), fe.expr(args[1]))
        if name == 'erase' and len(args) == 1:
            at = fe.ty(args[0]).strip_ref()
            m = fe.em.models.lookup(fe.em, at)
            if m is not None and m.is_iter and not scalar(self.key):
                return '%s_erase_it(%s, %s)' % (c, pb, fe.expr(args[0]))
            if m is not None and m.is_iter and at.kind != 'ptr':
                return '%s_erase_it(%s, %s)' % (c, pb, fe.expr(args[0]))
            return '%s_erase_key(%s, %s)' % (c, pb, fe.expr(args[0]))
        return Model.member(self, fe, b, name, args, node)


class Registry:
    def __init__(self):
        self.cache = {}
        self.key_ops_table = {}     # abbr -> (LT macro, EQ macro)
        self.free = {}              # function name -> handler(fe, args, node)
        self.extra_member = {}      # (model kind, name) -> handler

    def key_ops(self, em, key):
        if key.kind == 'ptr':
            return 'CM_LT_APPEND', 'CM_EQ_SCALAR'
        if scalar(key):
            return 'CM_LT_SCALAR', 'CM_EQ_SCALAR'
        if key.kind == 'name' and key.name == 'std::string':
            return 'CM_LT_STR', 'CM_EQ_STR'
        if key.kind == 'name' and key.name == 'std::pair' and all(scalar(a) for a in key.args):
            return 'CM_LT_PAIR', 'CM_EQ_PAIR'
        a = em.abbr(key)
        if a in self.key_ops_table:
            return self.key_ops_table[a]
        brk('no ordering registered for container key type %r' % key)

    def name_of(self, em, ty):
        """the C name the model of this type has (or would have), without creating it"""
        n = ty.name
        a = ty.args
        nc = lambda t: Ty(t.kind, t.name, t.args, False, t.inner, t.params, t.size)
        if n == 'std::string':
            return 'str'
        if n == 'std::pair' and len(a) == 2:
            return 'pair_%s_%s' % (em.abbr(nc(a[0])) if False else em.abbr(a[0]), em.abbr(a[1]))
        if n in ('std::vector', 'std::queue', 'std::initializer_list') and a:
            return 'vec_' + em.abbr(a[0])
        if n == 'std::map' and len(a) >= 2:
            return 'map_%s_%s' % (em.abbr(nc(a[0])), em.abbr(a[1]))
        if n == 'std::unordered_map' and len(a) >= 2:
            return 'umap_%s_%s' % (em.abbr(nc(a[0])), em.abbr(a[1]))
        if n == 'std::set' and a:
            return 'set_' + em.abbr(a[0])
        if n == 'std::unordered_set' and a:
            return 'uset_' + em.abbr(a[0])
        if n in ('std::_Rb_tree_iterator', 'std::_Rb_tree_const_iterator', '__gnu_cxx::__normal_iterator', 'std::__detail::_Node_iterator',
                 'std::__detail::_Node_const_iterator', 'std::__detail::_Node_iterator_base') or (ty.params and n.split('::')[-1] in ('iterator', 'const_iterator')):
            # iterators are pointers to the element: the abbreviation carries the element so that pair<iterator, bool> of different
            # containers are different structs
            try:
                if a and not (ty.params and n.split('::')[-1] in ('iterator', 'const_iterator')):
                    a0 = self._unconst(a[0])
                    if a0.kind == 'ptr':
                        a0 = self._unconst(a0.inner)
                    return 'it_' + em.abbr(a0)
            except Exception:
                pass
            return 'it'
        return None

    def lookup(self, em, ty):
        if ty.kind != 'name':
            return None
        key = repr(Ty('name', ty.name, ty.args, False, params=ty.params))
        if key in self.cache:
            return self.cache[key]
        self.cache[key] = None   # recursion guard
        m = self.make(em, ty)
        self.cache[key] = m
        return m

    def make(self, em, ty):
        n = ty.name
        if n == 'std::string':
            return StringModel()
        if n == 'std::pair' and len(ty.args) == 2:
            return PairModel(self, em, ty)
        if n == 'std::vector':
            return VectorModel(self, em, ty)
        if n == 'std::queue':
            return QueueModel(self.lookup(em, Ty('name', 'std::vector', ty.args[:1])))
        if n in ('std::map',):
            return MapModel(self, em, ty, 'map')
        if n in ('std::unordered_map',):
            return MapModel(self, em, ty, 'umap')
        if n == 'std::set':
            return SetModel(self, em, ty, 'set')
        if n == 'std::unordered_set':
            return SetModel(self, em, ty, 'uset')
        if n == 'std::initializer_list':
            return self.lookup(em, Ty('name', 'std::vector', ty.args))
        # iterators
        if n in ('std::_Rb_tree_iterator', 'std::_Rb_tree_const_iterator'):
            return IterModel(em.ctype(self._unconst(ty.args[0])))
        if n == '__gnu_cxx::__normal_iterator':
            p = ty.args[0]
            return IterModel(em.ctype(self._unconst(p.inner)))
        if n in ('std::__detail::_Node_iterator', 'std::__detail::_Node_const_iterator', 'std::__detail::_Node_iterator_base'):
            return IterModel(em.ctype(self._unconst(ty.args[0])))
        if n == 'std::reverse_iterator':
            brk('reverse iterators are not modelled')
        # sugared  std::map<K,V>::iterator  etc.
        if ty.params and ty.name.split('::')[-1] in ('iterator', 'const_iterator'):
            outer = ty.params[-2]
            oname = '::'.join(p[0] for p in ty.params[:-1])
            oty = em.canon(Ty('name', oname, outer[1]))
            cm = self.lookup(em, oty)
            if cm is not None and hasattr(cm, 'iter'):
                return cm.iter
        return None

    def _unconst(self, t):
        return Ty(t.kind, t.name, t.args, False, t.inner, t.params, t.size)

    # ---- calls into std
    def member_call(self, fe, base, memexpr, args, node):
        bt = fe.ty(base)
        if bt.kind == 'ptr' and memexpr.get('isArrow'):
            bt = bt.inner
            b = deref(fe.expr(base))
        else:
            b = fe.expr(base)
        bt = bt.strip_ref()
        m = self.lookup(fe.em, bt)
        if m is None:
            brk('%s: call of %s on unmodelled type %r' % (fe.f.get('name'), memexpr.get('name'), bt))
        if m.is_iter and memexpr.get('name') == 'operator->':
            return b
        if m.is_iter and memexpr.get('name') == 'base':
            return b
        return m.member(fe, b, memexpr['name'], args, node)

    def operator_call(self, fe, rd, args, node):
        name = rd.get('name', '')
        op = name[len('operator'):].strip()
        t0 = fe.ty(args[0]).strip_ref()
        m = self.lookup(fe.em, t0)
        if m is None and t0.kind == 'name' and t0.name in fe.em.p.record and op == '=':
            # implicit copy assignment whose decl is not in the dump
            l = fe.expr(args[0])
            return fe.assign(node, l, fe.expr(args[1]))
        if m is None:
            # e.g. operator==(const pair&, ...) / comparisons between iterators of mixed constness
            if len(args) == 2:
                m = self.lookup(fe.em, fe.ty(args[1]).strip_ref())
        if m is None:
            brk('%s: operator%s on unmodelled type %r' % (fe.f.get('name'), op, t0))
        if isinstance(m, StringModel):
            a = [fe.expr(x) for x in args]
            if op == '+' and len(a) == 2:
                return 'cm_str_cat(%s, %s)' % (a[0], a[1])
            if op == '+=' and len(a) == 2:
                return deref('cm_str_append(%s, %s)' % (addr(a[0]), a[1]))
            if op == '==' and len(a) == 2:
                return 'cm_str_eq(%s, %s)' % (a[0], a[1])
            if op == '!=' and len(a) == 2:
                return '(!cm_str_eq(%s, %s))' % (a[0], a[1])
            if op == '<' and len(a) == 2:
                return 'cm_str_lt(%s, %s)' % (a[0], a[1])
            if op == '=' and len(a) == 2:
                return fe.assign(node, a[0], a[1])
            brk('string operator%s' % op)
        if m.is_iter:
            a = [fe.expr(x) for x in args]
            if op in ('==', '!=', '<', '<=', '>', '>=', '-') and len(a) == 2:
                return '(%s %s %s)' % (a[0], op, a[1])
            if op == '+' and len(a) == 2:
                return '(%s + %s)' % (a[0], a[1])
            if op in ('+=', '-=') and len(a) == 2:
                return deref('(%s %s %s, &%s)' % (a[0], op, a[1], a[0]))
            if op in ('++', '--'):
                if len(a) == 2:     # postfix: dummy int
                    return '(%s%s)' % (a[0], op)
                if node.get('id') == fe._discard_id:
                    return '(%s%s)' % (op, a[0])
                return deref('(%s%s, &%s)' % (op, a[0], a[0]))
            if op == '*' and len(a) == 1:
                return deref(a[0])
            if op == '->' and len(a) == 1:
                return a[0]
            if op == '[]' and len(a) == 2:
                return deref('(%s + %s)' % (a[0], a[1]))
            brk('iterator operator%s/%d' % (op, len(a)))
        if op == '[]':
            return m.member(fe, fe.expr(args[0]), 'operator[]', args[1:], node)
        if op == '=' and len(args) == 2:
            l = fe.expr(args[0])
            return fe.assign(node, l, fe.expr(args[1]))
        h = self.extra_member.get((type(m).__name__, 'operator' + op))
        if h:
            return h(fe, m, args, node)
        brk('%s: operator%s on model %s' % (fe.f.get('name'), op, m.cname))

    def free_call(self, fe, rd, args, node):
        name = rd.get('name')
        h = self.free.get(name)
        if h is None:
            brk('%s: call of external function %s is not modelled' % (fe.f.get('name'), name))
        args = [a for a in args if a.get('kind') != 'CXXDefaultArgExpr']
        return h(fe, args, node)

    def indirect_call(self, fe, callee, args, node):
        brk('%s: indirect call' % fe.f.get('name'))

    def string_literal(self, fe, value):
        import hashlib
        tok = int(hashlib.sha1(value.encode()).hexdigest()[:6], 16) | 0x1000000
        fe.em.string_tokens[value] = tok
        return 'cm_str_lit(0x%xu /* %s */)' % (tok, value.replace('*/', '* /'))

    def lambda_expr(self, fe, n):
        brk('%s: lambda outside a modelled algorithm call' % fe.f.get('name'))

    def lift_lambda(self, fe, n):
        """non-capturing lambda -> static C function; returns its name"""
        x = n
        while x.get('kind') in ('MaterializeTemporaryExpr', 'ImplicitCastExpr', 'ExprWithCleanups', 'CXXBindTemporaryExpr', 'CXXConstructExpr', 'CXXFunctionalCastExpr'):
            x = x['inner'][0]
        if x.get('kind') != 'LambdaExpr':
            brk('%s: expected a lambda, got %s' % (fe.f.get('name'), x.get('kind')))
        rec = [c for c in x.get('inner', []) if c.get('kind') == 'CXXRecordDecl'][0]
        caps = [c for c in rec.get('inner', []) if c.get('kind') == 'FieldDecl']
        captures_this = False
        if caps:
            # only a capture of `this` is supported: the lifted function gets the enclosing object as an extra parameter
            if len(caps) == 1 and caps[0].get('type', {}).get('qualType', '').rstrip().endswith('*') and not caps[0].get('name'):
                captures_this = True
            else:
                return self.lift_capturing_lambda(fe, x, rec)
        ops = []
        for c in rec.get('inner', []):
            if c.get('kind') == 'CXXMethodDecl' and c.get('name') == 'operator()':
                ops.append(c)
            if c.get('kind') == 'FunctionTemplateDecl' and c.get('name') == 'operator()':
                ops += [d for d in c.get('inner', []) if d.get('kind') == 'CXXMethodDecl' and any(b.get('kind') == 'CompoundStmt' for b in d.get('inner', [])) and 'auto' not in d['type']['qualType']]
        if len(ops) != 1:
            brk('%s: lambda with %d call operators' % (fe.f.get('name'), len(ops)))
        op = ops[0]
        em = fe.em
        em.lambda_counter += 1
        name = 'xt_lambda%d' % em.lambda_counter
        from xtract import FuncEmitter
        f2 = dict(op)
        f2['kind'] = 'FunctionDecl'
        f2['_scope'] = fe.scope
        f2['mangledName'] = name
        fe.tu._index_body(op)
        for c in op.get('inner', []):
            if c.get('kind') == 'ParmVarDecl':
                fe.tu.by_id[c['id']] = c
        em.cname_of_mangled[name] = name
        em.mangled_of_cname[name] = name
        sub = FuncEmitter(em, fe.tu, f2)
        out = sub.emit()
        proto = out['proto']
        if captures_this:
            rec_q = fe.rec or fe.record_of_method()
            selfp = 'struct %s *self' % em.rec_cname(rec_q)
            proto = proto.replace('(void)', '(%s)' % selfp) if '(void)' in proto else proto.replace('(', '(' + selfp + ', ', 1)
        em.static_funcs.append('static ' + proto + '\n' + out['body'])
        sub.captures_this = captures_this
        return name, sub

    def lift_capturing_lambda(self, fe, x, rec):
        brk('%s: capturing lambda' % fe.f.get('name'))

    def new_expr(self, fe, n):
        # new T(args): a fresh heap object initialised by the (extracted) constructor; allocation never fails (bad_alloc is not modelled)
        inner = [c for c in n.get('inner', []) if c.get('kind') in ('CXXConstructExpr', 'InitListExpr', 'ExprWithCleanups')]
        if n.get('isArray') or len(inner) != 1:
            brk('%s: new of this form' % fe.f.get('name'))
        pt = fe.ty(n)
        if pt.kind != 'ptr':
            brk('%s: new of non-pointer type' % fe.f.get('name'))
        ct = fe.em.ctype(pt.inner)
        fe.em.dropped.add('std::bad_alloc of operator new (allocation is assumed to succeed)')
        return '({ %s *xt_np = malloc(sizeof(%s)); __CPROVER_assume(xt_np != 0); *xt_np = %s; xt_np; })' % (ct, ct, fe.expr(inner[0]))

    def delete_expr(self, fe, n):
        brk('%s: delete' % fe.f.get('name'))

    def dynamic_cast(self, fe, n, sub):
        brk('%s: dynamic_cast' % fe.f.get('name'))


def default_registry():
    r = Registry()

    def simple(cfn):
        def h(fe, args, node):
            return '%s(%s)' % (cfn, ', '.join(fe.expr(a) for a in args))
        return h
    r.free['gcd'] = simple('cm_gcd')
    r.free['lcm'] = simple('cm_lcm')
    r.free['abs'] = simple('cm_abs')

    def h_move(fe, args, node):
        return fe.expr(args[0])
    r.free['move'] = h_move
    r.free['forward'] = h_move
    r.free['sqrt'] = simple('cm_sqrt')
    r.free['ceil'] = simple('cm_ceil')

    def h_to_string(fe, args, node):
        return 'cm_str_num((unsigned long)%s)' % fe.expr(args[0])
    r.free['to_string'] = h_to_string

    def h_sort(fe, args, node):
        if len(args) != 3:
            brk('std::sort without comparator')
        lname, sub = r.lift_lambda(fe, args[2])
        et = fe.ty(args[0])
        m = r.lookup(fe.em, et.strip_ref())
        if m is None or not m.is_iter:
            brk('std::sort on non-iterator %r' % et)
        fe.em.sort_counter = getattr(fe.em, 'sort_counter', 0) + 1
        sname = 'xt_sort%d' % fe.em.sort_counter
        fe.em.static_funcs.append('CM_SORT(%s, %s, %s)' % (sname, m.elem, lname))
        return '%s(%s, %s)' % (sname, fe.expr(args[0]), fe.expr(args[1]))
    r.free['sort'] = h_sort

    def h_make_pair(fe, args, node):
        t = fe.ty(node)
        m = r.lookup(fe.em, t)
        if m is None:
            brk('make_pair of %r' % t)
        return m.construct(fe, None, args, node)
    r.free['make_pair'] = h_make_pair

    def _algo(kind):
        def h(fe, args, node):
            lname, sub = r.lift_lambda(fe, args[2])
            et = fe.ty(args[0])
            m = r.lookup(fe.em, et.strip_ref())
            if m is None or not m.is_iter:
                brk('std::%s on non-iterator %r' % (kind, et))
            fe.em.algo_counter = getattr(fe.em, 'algo_counter', 0) + 1
            fname = 'xt_%s%d' % (kind, fe.em.algo_counter)
            T = m.elem
            sp = ''
            sa = ''
            call = '%s(%%s)' % lname
            if getattr(sub, 'captures_this', False):
                rec_q = fe.rec or fe.record_of_method()
                sp = 'struct %s *self, ' % fe.em.rec_cname(rec_q)
                sa = 'self, '
                call = '%s(self, %%s)' % lname
            # rendered in place as a GNU statement expression (goto-cc accepts them): no helper function, so the loop and its
            # locals belong to the calling function (this matters inside loops that carry a contract)
            bexp, eexp = fe.expr(args[0]), fe.expr(args[1])
            fe.em.algo_counter += 0
            k = fe.em.algo_counter
            B, E, P, Rr = 'xb%d' % k, 'xe%d' % k, 'xp%d' % k, 'xr%d' % k
            head = '%s *%s = %s; %s *%s = %s; ' % (T, B, bexp, T, E, eexp)
            if kind == 'find_if':
                return '({ %s%s *%s = %s; for (%s *%s = %s; %s != %s; ) { %s--; if (%s) %s = %s; } %s; })' % (head, T, Rr, E, T, P, E, P, B, P, call % P, Rr, P, Rr)
            if kind == 'any_of':
                return '({ %s_Bool %s = 0; for (%s *%s = %s; %s != %s; %s++) if (%s) %s = 1; %s; })' % (head, Rr, T, P, B, P, E, P, call % P, Rr, Rr)
            if kind == 'all_of':
                return '({ %s_Bool %s = 1; for (%s *%s = %s; %s != %s; %s++) if (!%s) %s = 0; %s; })' % (head, Rr, T, P, B, P, E, P, call % P, Rr, Rr)
            if kind == 'none_of':
                return '({ %s_Bool %s = 1; for (%s *%s = %s; %s != %s; %s++) if (%s) %s = 0; %s; })' % (head, Rr, T, P, B, P, E, P, call % P, Rr, Rr)
            if kind == 'count_if':
                return '({ %sI_t %s = 0; for (%s *%s = %s; %s != %s; %s++) if (%s) %s++; %s; })' % (head, Rr, T, P, B, P, E, P, call % P, Rr, Rr)
            if kind == 'min_element':
                return '({ %s%s *%s = %s; if (%s != %s) for (%s *%s = %s + 1; %s != %s; %s++) if (%s) %s = %s; %s; })' % (
                    head, T, Rr, B, B, E, T, P, B, P, E, P, call % ('%s, %s' % (P, Rr)), Rr, P, Rr)
        return h
    for _k in ('find_if', 'any_of', 'all_of', 'none_of', 'count_if', 'min_element'):
        r.free[_k] = _algo(_k)

    def h_infinity(fe, args, node):
        return 'CM_DBL_INF'
    r.free['infinity'] = h_infinity

    def h_isfinite(fe, args, node):
        return 'cm_isfinite(%s)' % fe.expr(args[0])
    r.free['isfinite'] = h_isfinite

    def h_swap(fe, args, node):
        ct = fe.em.ctype(fe.ty(args[0]).strip_ref())
        fname = 'xt_swap_' + re.sub(r'\W+', '_', ct)
        if fname not in getattr(fe.em, 'swap_funcs', set()):
            fe.em.swap_funcs = getattr(fe.em, 'swap_funcs', set()) | {fname}
            fe.em.static_funcs.append('static inline void %s(%s *a, %s *b) { %s t = *a; *a = *b; *b = t; }' % (fname, ct, ct, ct))
        return '%s(%s, %s)' % (fname, addr(fe.expr(args[0])), addr(fe.expr(args[1])))
    r.free['swap'] = h_swap

    def h_next(fe, args, node):
        if len(args) == 1:
            return '(%s + 1)' % fe.expr(args[0])
        return '(%s + %s)' % (fe.expr(args[0]), fe.expr(args[1]))
    r.free['next'] = h_next

    def h_find(fe, args, node):
        # std::find(first, last, value) over a pointer-iterator range of scalars
        b, e, v = fe.expr(args[0]), fe.expr(args[1]), fe.expr(args[2])
        et = fe.ty(args[0])
        m = r.lookup(fe.em, et.strip_ref())
        if m is None or not m.is_iter:
            brk('std::find on non-iterator %r' % et)
        fe.em.find_counter = getattr(fe.em, 'find_counter', 0) + 1
        fname = 'xt_find%d' % fe.em.find_counter
        fe.em.static_funcs.append('static inline %s *%s(%s *b, %s *e, %s v) { %s *r = e; for (%s *p = e; p != b; ) { p--; if (*p == v) r = p; } return r; }' % (
            m.elem, fname, m.elem, m.elem, m.elem, m.elem, m.elem))
        return '%s(%s, %s, %s)' % (fname, b, e, v)
    r.free['find'] = h_find

    def h_fill(fe, args, node):
        # std::fill(first, last, value) over a pointer-iterator range
        b, e, v = fe.expr(args[0]), fe.expr(args[1]), fe.expr(args[2])
        et = fe.ty(args[0])
        m = r.lookup(fe.em, et.strip_ref())
        if m is None or not m.is_iter:
            brk('std::fill on non-iterator %r' % et)
        return '({ %s *xt_fb = %s; %s *xt_fe = %s; %s xt_fv = %s; for (; xt_fb != xt_fe; ++xt_fb) *xt_fb = xt_fv; (void)0; })' % (m.elem, b, m.elem, e, m.elem, v)
    r.free['fill'] = h_fill

    def h_max(fe, args, node):
        if not args:    # std::numeric_limits<T>::max()
            ct = fe.em.ctype(fe.ty(node))
            if ct == 'I_t':
                return 'CM_I_MAX'
            if ct == 'U_t':
                return '((U_t)-1)'
            brk('numeric_limits<%s>::max()' % ct)
        if len(args) == 2:
            a, b = fe.expr(args[0]), fe.expr(args[1])
            tmp = fe.new_tmp(fe.em.ctype(fe.ty(node).strip_ref()))
            return '(%s = (%s < %s) ? %s : %s, %s)' % (tmp, a, b, b, a, tmp) if False else deref('((%s < %s) ? %s : %s)' % (a, b, addr(b), addr(a)))
        brk('std::max with %d arguments' % len(args))
    r.free['max'] = h_max
    return r
