"""Parser for clang's printed C++ type strings (qualType) into a small tree."""
import re

TOK = re.compile(r'\s*(::|<|>|,|\*|&&|&|\(|\)|\[|\]|\.\.\.|[A-Za-z_~][A-Za-z_0-9]*|-?[0-9]+[uUlL]*|\'[^\']*\')')


class Ty:
    __slots__ = ('kind', 'name', 'args', 'const', 'inner', 'params', 'size')

    def __init__(self, kind, name=None, args=None, const=False, inner=None, params=None, size=None):
        self.kind = kind      # name | ptr | ref | rref | func | array | lit
        self.name = name
        self.args = args or []
        self.const = const
        self.inner = inner
        self.params = params
        self.size = size

    def __repr__(self):
        c = 'const ' if self.const else ''
        if self.kind == 'name':
            a = '<' + ', '.join(map(repr, self.args)) + '>' if self.args else ''
            return c + self.name + a
        if self.kind == 'lit':
            return self.name
        if self.kind == 'ptr':
            return repr(self.inner) + ' *' + (' const' if self.const else '')
        if self.kind == 'ref':
            return repr(self.inner) + ' &'
        if self.kind == 'rref':
            return repr(self.inner) + ' &&'
        if self.kind == 'array':
            return repr(self.inner) + '[%s]' % (self.size,)
        if self.kind == 'func':
            return repr(self.inner) + ' (' + ', '.join(map(repr, self.params)) + ')'
        return '?'

    def strip_ref(self):
        return self.inner if self.kind in ('ref', 'rref') else self

    def is_ref(self):
        return self.kind in ('ref', 'rref')


class TypeParseError(Exception):
    pass


BUILTIN_WORDS = {'unsigned', 'signed', 'long', 'short', 'int', 'char', 'double', 'float', 'bool', 'void',
                 'wchar_t', 'char16_t', 'char32_t', '__int128'}


def parse_type(s):
    toks = TOK.findall(s)
    if ''.join(toks).replace(' ', '') != re.sub(r'\s+', '', s):
        raise TypeParseError('cannot tokenise type: %r' % s)
    p = _P(toks, s)
    t = p.type()
    if p.i != len(toks):
        raise TypeParseError('trailing tokens in type %r at %d' % (s, p.i))
    return t


class _P:
    def __init__(self, toks, s):
        self.t = toks
        self.i = 0
        self.s = s

    def peek(self):
        return self.t[self.i] if self.i < len(self.t) else None

    def eat(self, x=None):
        tok = self.peek()
        if x is not None and tok != x:
            raise TypeParseError('expected %r got %r in %r' % (x, tok, self.s))
        self.i += 1
        return tok

    def type(self):
        const = False
        while self.peek() in ('const', 'volatile', 'struct', 'class', 'enum', 'typename'):
            if self.eat() == 'const':
                const = True
        base = self.base()
        base.const = base.const or const
        return self.suffix(base)

    def base(self):
        tok = self.peek()
        if tok is None:
            raise TypeParseError('unexpected end in %r' % self.s)
        if re.match(r"-?[0-9]|'", tok):
            self.eat()
            return Ty('lit', tok)
        if tok in BUILTIN_WORDS:
            words = []
            while self.peek() in BUILTIN_WORDS:
                words.append(self.eat())
            return Ty('name', normalize_builtin(words))
        # qualified name with template args
        parts = []
        args = []
        if tok == '::':
            self.eat()
        while True:
            ident = self.eat()
            if not re.match(r'[A-Za-z_~]', ident or ''):
                raise TypeParseError('bad identifier %r in %r' % (ident, self.s))
            if ident == 'operator':
                raise TypeParseError('operator in type %r' % self.s)
            if ident == '(':
                raise TypeParseError('paren in name %r' % self.s)
            targs = []
            if self.peek() == '<':
                self.eat('<')
                if self.peek() != '>':
                    while True:
                        targs.append(self.type())
                        if self.peek() == ',':
                            self.eat()
                            continue
                        break
                self.eat('>')
            parts.append((ident, targs))
            if self.peek() == '::':
                self.eat()
                continue
            break
        # the template args of the last component are the type's args; nested ones are kept in the name
        name = '::'.join(p[0] + (('<' + ', '.join(map(repr, p[1])) + '>') if p[1] and k < len(parts) - 1 else '')
                         for k, p in enumerate(parts))
        t = Ty('name', name, parts[-1][1])
        if len(parts) > 1 and any(p[1] for p in parts[:-1]):
            # e.g. std::map<K,V>::iterator : keep the outer args for the mapper
            t.params = [p for p in parts]
        return t

    def suffix(self, t):
        while True:
            tok = self.peek()
            if tok == 'const':
                self.eat()
                t.const = True
            elif tok == 'volatile':
                self.eat()
            elif tok == '*':
                self.eat()
                t = Ty('ptr', inner=t)
            elif tok == '&':
                self.eat()
                t = Ty('ref', inner=t)
            elif tok == '&&':
                self.eat()
                t = Ty('rref', inner=t)
            elif tok == '[':
                self.eat()
                size = None
                if self.peek() != ']':
                    size = self.eat()
                self.eat(']')
                t = Ty('array', inner=t, size=size)
            elif tok == '(':
                # function type  R (params) [const] [noexcept]   or pointer-to-function R (*)(params)
                self.eat()
                if self.peek() == '*':
                    self.eat()
                    self.eat(')')
                    self.eat('(')
                    params = self.params()
                    t = Ty('ptr', inner=Ty('func', inner=t, params=params))
                else:
                    params = self.params()
                    t = Ty('func', inner=t, params=params)
                while self.peek() in ('const', 'noexcept', 'volatile', '&', '&&'):
                    if self.eat() == 'noexcept' and self.peek() == '(':
                        depth = 0
                        while True:
                            tk = self.eat()
                            if tk == '(':
                                depth += 1
                            elif tk == ')':
                                depth -= 1
                                if depth == 0:
                                    break
                            elif tk is None:
                                raise TypeParseError('unbalanced noexcept(...) in %r' % self.s)
            else:
                return t

    def params(self):
        ps = []
        if self.peek() == ')':
            self.eat()
            return ps
        while True:
            if self.peek() == '...':
                self.eat()
            else:
                ps.append(self.type())
            if self.peek() == ',':
                self.eat()
                continue
            self.eat(')')
            return ps


def normalize_builtin(words):
    w = [x for x in words if x != 'int' or len(words) == 1 or set(words) <= {'int', 'unsigned', 'signed'}]
    s = set(words)
    if 'char' in s:
        return 'unsigned char' if 'unsigned' in s else ('signed char' if 'signed' in s else 'char')
    if 'double' in s:
        return 'long double' if 'long' in s else 'double'
    if 'float' in s or 'bool' in s or 'void' in s:
        return words[0]
    uns = 'unsigned' in s
    nlong = words.count('long')
    if 'short' in s:
        base = 'short'
    elif nlong >= 2:
        base = 'long long'
    elif nlong == 1:
        base = 'long'
    else:
        base = 'int'
    return ('unsigned ' if uns else '') + base


if __name__ == '__main__':
    import sys
    for s in sys.argv[1:]:
        print(repr(parse_type(s)))
