/* lra_undo_spec.h — undo-log invariant of lra_theory's bounds (same shape as dl_undo_spec.h) */
#ifndef LRA_UNDO_SPEC_H
#define LRA_UNDO_SPEC_H
#ifndef XT_NB
#define XT_NB 4      /* 2 arithmetic variables: lb/ub index pairs */
#endif
struct vec_bound xt_snapB;

static inline _Bool spl_rat_id(struct smt_rational a, struct smt_rational b) { return a.num == b.num && a.den == b.den; }
static inline _Bool spl_bound_id(struct smt_lra_theory_bound a, struct smt_lra_theory_bound b)
{
  return spl_rat_id(a.value.rat, b.value.rat) && spl_rat_id(a.value.inf, b.value.inf) && a.reason.x == b.reason.x;
}
static inline _Bool spl_wf_layer(struct umap_U_bound m)
{
  if (m.n > XT_NB) return 0;
  for (U_t k = 0; k < XT_NB; k++)
    if (k < m.n) { if (m.e[k].first >= XT_NB) return 0; if (k + 1 < m.n && !(m.e[k].first < m.e[k + 1].first)) return 0; }
  return 1;
}
static inline _Bool spl_undo(struct umap_U_bound layer, struct vec_bound cur, struct vec_bound snap)
{
  for (U_t i = 0; i < XT_NB; i++)
  {
    _Bool in = 0; struct smt_lra_theory_bound v = cur.e[i];
    for (U_t k = 0; k < XT_NB; k++)
      if (k < layer.n && layer.e[k].first == i) { in = 1; v = layer.e[k].second; }
    if (!spl_bound_id(in ? v : cur.e[i], snap.e[i])) return 0;
  }
  return 1;
}
static inline _Bool spl_rat_ok(struct smt_rational r) { return r.num > -4 && r.num < 4 && r.den >= 0 && r.den < 4 && (r.den != 0 || r.num == 1 || r.num == -1); }
/* bound values: canonical small rationals (rational part possibly infinite, infinitesimal part an integer in -1..1) */
static inline _Bool spl_val_ok(struct smt_inf_rational v)
{
  return spl_rat_ok(v.rat) && wf_rat(v.rat) && v.inf.den == 1 && v.inf.num >= -1 && v.inf.num <= 1;
}
static inline _Bool spl_bounds_ok(struct vec_bound b)
{
  if (b.n != XT_NB) return 0;
  for (U_t i = 0; i < XT_NB; i++) if (!spl_val_ok(b.e[i].value)) return 0;
  return 1;
}
static inline _Bool spl_inv(struct smt_lra_theory *t)
{
  if (!spl_bounds_ok(t->c_bounds) || t->layers.n > 1 || xt_snapB.n != XT_NB) return 0;
  if (t->layers.n == 0) return 1;
  return spl_wf_layer(t->layers.e[0]) && spl_undo(t->layers.e[0], t->c_bounds, xt_snapB);
}
/* b equals a except (possibly) at index k, where it is exactly nb */
static inline _Bool spl_bounds_upd(struct vec_bound a, struct vec_bound b, U_t k, struct smt_lra_theory_bound nb)
{
  if (b.n != a.n) return 0;
  for (U_t i = 0; i < XT_NB; i++)
    if (!spl_bound_id(b.e[i], i == k ? nb : a.e[i])) return 0;
  return 1;
}
static inline _Bool spl_bounds_same(struct vec_bound a, struct vec_bound b)
{
  if (b.n != a.n) return 0;
  for (U_t i = 0; i < XT_NB; i++) if (!spl_bound_id(b.e[i], a.e[i])) return 0;
  return 1;
}
static inline struct smt_lra_theory_bound spl_mk_bound(struct smt_inf_rational v, struct smt_lit p) { struct smt_lra_theory_bound b; b.value = v; b.reason = p; return b; }
#endif
