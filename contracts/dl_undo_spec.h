/* dl_undo_spec.h — the undo-log invariant of idl_theory (DESIGN §4 "Undo-log invariant"):
 *   Undo(layer, cur, snap):  for every index k:  k in layer  =>  layer[k] == snap[k];   k not in layer  =>  cur[k] == snap[k]
 * with snap the (ghost, symbolic) state at the matching push.  Established by push (layer empty, snap := cur), preserved by
 * every mutator, consumed by pop (ensures cur == snap).  One symbolic level stands for every depth: lower layers are never
 * written (frame). */
#ifndef DL_UNDO_SPEC_H
#define DL_UNDO_SPEC_H
#ifndef XT_N
#define XT_N 3
#endif
#define XT_NN (XT_N * XT_N)

struct vec_vec_I xt_snapD;
struct vec_vec_U xt_snapP;
struct map_pair_U_U_idl_distancep xt_snapC;

static inline _Bool spu_shape_D(struct vec_vec_I D)
{
  if (D.n != XT_N) return 0;
  for (U_t i = 0; i < XT_N; i++) if (D.e[i].n != XT_N) return 0;
  return 1;
}
static inline _Bool spu_shape_P(struct vec_vec_U P)
{
  if (P.n != XT_N) return 0;
  for (U_t i = 0; i < XT_N; i++) if (P.e[i].n != XT_N) return 0;
  return 1;
}
static inline _Bool spu_key_lt(struct pair_U_U a, struct pair_U_U b) { return a.first < b.first || (a.first == b.first && a.second < b.second); }
static inline _Bool spu_key_ok(struct pair_U_U a) { return a.first < XT_N && a.second < XT_N; }
/* map models are sorted arrays: strictly increasing keys, all in range */
static inline _Bool spu_wf_mD(struct map_pair_U_U_I m)
{
  if (m.n > XT_NN) return 0;
  for (U_t k = 0; k < XT_NN; k++)
    if (k < m.n) { if (!spu_key_ok(m.e[k].first)) return 0; if (k + 1 < m.n && !spu_key_lt(m.e[k].first, m.e[k + 1].first)) return 0; }
  return 1;
}
static inline _Bool spu_wf_mP(struct map_pair_U_U_U m)
{
  if (m.n > XT_NN) return 0;
  for (U_t k = 0; k < XT_NN; k++)
    if (k < m.n) { if (!spu_key_ok(m.e[k].first)) return 0; if (k + 1 < m.n && !spu_key_lt(m.e[k].first, m.e[k + 1].first)) return 0; }
  return 1;
}
static inline _Bool spu_wf_mC(struct map_pair_U_U_idl_distancep m)
{
  if (m.n > XT_NN) return 0;
  for (U_t k = 0; k < XT_NN; k++)
    if (k < m.n) { if (!spu_key_ok(m.e[k].first)) return 0; if (k + 1 < m.n && !spu_key_lt(m.e[k].first, m.e[k + 1].first)) return 0; }
  return 1;
}
static inline _Bool spu_undo_D(struct map_pair_U_U_I layer, struct vec_vec_I cur, struct vec_vec_I snap)
{
  for (U_t i = 0; i < XT_N; i++)
    for (U_t j = 0; j < XT_N; j++)
    {
      _Bool in = 0; I_t v = 0;
      for (U_t k = 0; k < XT_NN; k++)
        if (k < layer.n && layer.e[k].first.first == i && layer.e[k].first.second == j) { in = 1; v = layer.e[k].second; }
      if (in ? (v != snap.e[i].e[j]) : (cur.e[i].e[j] != snap.e[i].e[j])) return 0;
    }
  return 1;
}
static inline _Bool spu_undo_P(struct map_pair_U_U_U layer, struct vec_vec_U cur, struct vec_vec_U snap)
{
  for (U_t i = 0; i < XT_N; i++)
    for (U_t j = 0; j < XT_N; j++)
    {
      _Bool in = 0; U_t v = 0;
      for (U_t k = 0; k < XT_NN; k++)
        if (k < layer.n && layer.e[k].first.first == i && layer.e[k].first.second == j) { in = 1; v = layer.e[k].second; }
      if (in ? (v != snap.e[i].e[j]) : (cur.e[i].e[j] != snap.e[i].e[j])) return 0;
    }
  return 1;
}
/* value of a (pair -> constraint) map at (i,j); null if absent */
static inline struct smt_idl_theory_idl_distance *spu_lookup_C(struct map_pair_U_U_idl_distancep m, U_t i, U_t j)
{
  struct smt_idl_theory_idl_distance *r = 0;
  for (U_t k = 0; k < XT_NN; k++)
    if (k < m.n && m.e[k].first.first == i && m.e[k].first.second == j) r = m.e[k].second;
  return r;
}
static inline _Bool spu_has_C(struct map_pair_U_U_idl_distancep m, U_t i, U_t j)
{
  for (U_t k = 0; k < XT_NN; k++)
    if (k < m.n && m.e[k].first.first == i && m.e[k].first.second == j) return 1;
  return 0;
}
/* stored entries of the enforced-constraint map are never null */
static inline _Bool spu_nonnull_C(struct map_pair_U_U_idl_distancep m)
{
  for (U_t k = 0; k < XT_NN; k++) if (k < m.n && m.e[k].second == 0) return 0;
  return 1;
}
static inline _Bool spu_undo_C(struct map_pair_U_U_idl_distancep layer, struct map_pair_U_U_idl_distancep cur, struct map_pair_U_U_idl_distancep snap)
{
  for (U_t i = 0; i < XT_N; i++)
    for (U_t j = 0; j < XT_N; j++)
    {
      struct smt_idl_theory_idl_distance *s = spu_lookup_C(snap, i, j);
      if (spu_has_C(layer, i, j) ? (spu_lookup_C(layer, i, j) != s) : (spu_lookup_C(cur, i, j) != s)) return 0;
    }
  return 1;
}
static inline _Bool spu_same_C(struct map_pair_U_U_idl_distancep a, struct map_pair_U_U_idl_distancep b)
{
  for (U_t i = 0; i < XT_N; i++)
    for (U_t j = 0; j < XT_N; j++)
      if (spu_lookup_C(a, i, j) != spu_lookup_C(b, i, j)) return 0;
  return 1;
}
static inline _Bool spu_D_eq_except(struct vec_vec_I a, struct vec_vec_I b, U_t fi, U_t fj, I_t val)
{
  for (U_t i = 0; i < XT_N; i++)
    for (U_t j = 0; j < XT_N; j++)
      if (b.e[i].e[j] != ((i == fi && j == fj) ? val : a.e[i].e[j])) return 0;
  return 1;
}
static inline _Bool spu_P_eq_except(struct vec_vec_U a, struct vec_vec_U b, U_t fi, U_t fj, U_t val)
{
  for (U_t i = 0; i < XT_N; i++)
    for (U_t j = 0; j < XT_N; j++)
      if (b.e[i].e[j] != ((i == fi && j == fj) ? val : a.e[i].e[j])) return 0;
  return 1;
}
static inline _Bool spu_mD_eq(struct map_pair_U_U_I a, struct map_pair_U_U_I b)
{
  if (a.n != b.n) return 0;
  for (U_t k = 0; k < XT_NN; k++)
    if (k < a.n && (a.e[k].first.first != b.e[k].first.first || a.e[k].first.second != b.e[k].first.second || a.e[k].second != b.e[k].second)) return 0;
  return 1;
}
static inline _Bool spu_mP_eq(struct map_pair_U_U_U a, struct map_pair_U_U_U b)
{
  if (a.n != b.n) return 0;
  for (U_t k = 0; k < XT_NN; k++)
    if (k < a.n && (a.e[k].first.first != b.e[k].first.first || a.e[k].first.second != b.e[k].first.second || a.e[k].second != b.e[k].second)) return 0;
  return 1;
}
static inline _Bool spu_mC_eq(struct map_pair_U_U_idl_distancep a, struct map_pair_U_U_idl_distancep b)
{
  if (a.n != b.n) return 0;
  for (U_t k = 0; k < XT_NN; k++)
    if (k < a.n && (a.e[k].first.first != b.e[k].first.first || a.e[k].first.second != b.e[k].first.second || a.e[k].second != b.e[k].second)) return 0;
  return 1;
}
/* the whole invariant for a theory with at most one open level */
static inline _Bool spu_inv(struct smt_idl_theory *t)
{
  if (!spu_shape_D(t->_dists) || !spu_shape_P(t->_preds) || !spu_wf_mC(t->dist_constr) || !spu_nonnull_C(t->dist_constr)) return 0;
  if (t->layers.n > 1) return 0;
  if (t->layers.n == 0) return 1;
  if (!spu_wf_mD(t->layers.e[0].old_dists) || !spu_wf_mP(t->layers.e[0].old_preds) || !spu_wf_mC(t->layers.e[0].old_constrs)) return 0;
  return spu_undo_D(t->layers.e[0].old_dists, t->_dists, xt_snapD) && spu_undo_P(t->layers.e[0].old_preds, t->_preds, xt_snapP) &&
         spu_undo_C(t->layers.e[0].old_constrs, t->dist_constr, xt_snapC);
}
#endif
