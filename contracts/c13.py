"""C13 — reified boolean constructs are equivalent to the formula they stand for (DESIGN §5/C13).

All semantic statements are about ONE arbitrary total assignment xt_sigma (a ghost chosen by the harness); proving them for
the symbolic choice proves them for every assignment.  "The clauses this call added" are the ghost-log entries
[old(xt_ncl), xt_ncl).  new_var / new_clause (and new_conj / new_at_most_one where they are callees) are replaced by their
contracts in the callers, and their bodies are proved against the same contracts in their own jobs."""
import hashlib

from vlib.engine import Contract, Job, Known

TUS = ['smt/sat_core.cpp']
import os
SOLVER = os.environ.get('C13_SOLVER', 'cadical')
SPEC = ['sat_spec.h', 'sat_spec2.h']
NEW_VAR = 'smt_sat_core_new_var'
NEW_CLAUSE = 'smt_sat_core_new_clause__vec_lit'
EQ_T = 'smt_sat_core_new_eq__lit__lit'
CONJ_T = 'smt_sat_core_new_conj__vec_lit'
DISJ_T = 'smt_sat_core_new_disj__vec_lit'
AMO_T = 'smt_sat_core_new_at_most_one__vec_lit'
EXO_T = 'smt_sat_core_new_exct_one__vec_lit'
ABS = {'smt::sat_core': ['assigns', 'trail_lim', 'exprs']}
R = '__CPROVER_return_value'


def tok(s):
    return '0x%xu' % (int(hashlib.sha1(('"%s"' % s).encode()).hexdigest()[:6], 16) | 0x1000000)


def defines(nv0, maxv=6, maxcl=4, maxlits=4, exprs_cap=4, str_cap=6):
    return {'U_BITS': 16, 'CM_STR_CAP': str_cap, 'XT_MAXV': maxv, 'XT_MAXLITS': maxlits, 'XT_MAXCL': maxcl, 'XT_EXPRS_CAP': exprs_cap, 'XT_NV0': nv0,
            'XT_TOK_b': tok('b'), 'XT_TOK_eq': tok('='), 'XT_TOK_and': tok('&'), 'XT_TOK_or': tok('|'), 'XT_TOK_amo': tok('amo'), 'XT_TOK_xor': tok('^')}


# ---- callee contracts (used through --replace-call-with-contract in the callers)
C_NEW_VAR = Contract(
    requires=['self->assigns.n < XT_MAXV && self->exprs.n < XT_EXPRS_CAP'],
    ensures=[('returns_fresh_index', '%s == __CPROVER_old(self->assigns.n)' % R),
             ('assigns_grown', 'self->assigns.n == __CPROVER_old(self->assigns.n) + 1 && sp_assigns_grown(__CPROVER_old(self->assigns), self->assigns)'),
             ('exprs_var_entry', 'sp_exprs_emplaced(__CPROVER_old(self->exprs), self->exprs, sp_key_var(%s), sp_mk_lit(%s, 1))' % (R, R))],
    assigns='self->assigns, self->exprs')

ST = 'sp_status(__CPROVER_old(self->assigns), lits)'
NC_POST = 'sp_new_clause_post(__CPROVER_old(self->assigns), self->assigns, lits, __CPROVER_old(xt_ncl), xt_ncl, %s, xt_sigma)' % R
NC_REQ = ['self->trail_lim.n == 0', 'sp_lits_ok(self->assigns, lits, XT_MAXLITS) && xt_ncl < XT_MAXCL']
NC_ASSIGNS = 'xt_ncl, xt_cl[xt_ncl], self->assigns'
# what the callers assume at each call site (one pass) ...
C_NEW_CLAUSE = Contract(requires=NC_REQ, ensures=[('post', NC_POST)], assigns=NC_ASSIGNS)
# ... and what the body is proved against: the same clause plus its four conjuncts separately, for readable obligations
C_NEW_CLAUSE_BODY = Contract(
    requires=NC_REQ,
    ensures=[('post', NC_POST),
             ('false_iff_falsified', '%s == (%s != 0)' % (R, ST)),
             ('open_clause_logged', '%s != 3 || (xt_ncl == __CPROVER_old(xt_ncl) + 1 && sp_assigns_same(__CPROVER_old(self->assigns), self->assigns) && '
              '(!sg_ext(xt_sigma, self->assigns) || sg_sat_clause(xt_sigma, xt_cl[__CPROVER_old(xt_ncl)]) == sg_sat_lits(xt_sigma, lits)))' % ST),
             ('unit_clause_enqueued', '%s != 2 || (xt_ncl == __CPROVER_old(xt_ncl) && sp_assigns_upd(__CPROVER_old(self->assigns), self->assigns, '
              'sp_var(sp_unit_lit(__CPROVER_old(self->assigns), lits)), sp_sign(sp_unit_lit(__CPROVER_old(self->assigns), lits)) ? SP_TRUE : SP_FALSE))' % ST),
             ('otherwise_nothing', '(%s != 0 && %s != 1) || (xt_ncl == __CPROVER_old(xt_ncl) && sp_assigns_same(__CPROVER_old(self->assigns), self->assigns))' % (ST, ST))],
    assigns=NC_ASSIGNS)

FRESH = '__CPROVER_is_fresh(self, sizeof(*self))'
A0 = '__CPROVER_old(self->assigns)'
N0 = '__CPROVER_old(self->assigns.n)'
NCL0 = '__CPROVER_old(xt_ncl)'
LOG = 'sg_sat_log(xt_sigma, %s, xt_ncl)' % NCL0
UNCHANGED = 'sp_assigns_grown(%s, self->assigns)' % A0
FRAME = '__exc, xt_ncl, __CPROVER_object_whole(xt_cl), self->assigns, self->exprs'
HPRE = '  { unsigned int sg; xt_sigma = sg; }'
REPLAY_HEAD = '  sat_core *sat = build_sat(200); std::vector<lbool> A0 = sat->assigns; size_t ncl0 = sat->constrs.size();\n'


# the expression cache gains at most the per-variable entry of one new variable and the entry of the new expression
# when a variable is created, the literal handed out is that variable (positive)
RES_IS_NEW = ('result_is_the_new_variable', 'self->assigns.n == __CPROVER_old(self->assigns.n) || __CPROVER_return_value.x == sp_mk_lit(__CPROVER_old(self->assigns.n), 1).x')
EXPRS_GROWTH = ('exprs_growth_bounded', 'self->exprs.n <= __CPROVER_old(self->exprs.n) + 2')


def pre(maxnew_clauses, maxnew_vars, extra, exprs_room=2, cache='sp_exprs_fresh_for_lits(self->exprs, XT_EXPRS_CAP - %d, ls)'):
    """root-level network state every construct may be called in (symbolic), plus room in the ghost log / models.  The cache may
    hold anything that does not mention a variable of the arguments (so this request cannot hit it)."""
    return [FRESH, '__exc == 0 && xt_ncl + %d <= XT_MAXCL' % maxnew_clauses,
            'sp_assigns_wf(self->assigns, XT_NV0 + %d) && self->assigns.n + %d <= XT_MAXV && self->trail_lim.n == 0' % (8, maxnew_vars)] + extra + [cache % exprs_room]


def reified(formula, maxcl, nl, strict=True):
    """contract of a construct returning a literal equivalent to `formula` (C expr over xt_sigma and the parameters)"""
    return [('noexcept', '__exc == 0'),
            ('result_in_range', 'sp_var(%s) < self->assigns.n' % R),
            ('equivalent', '!(sg_ext(xt_sigma, self->assigns) && %s) || sg_lit(xt_sigma, %s) == %s' % (LOG, R, formula)),
            ('root_assignment_unchanged', UNCHANGED),
            ('conservative', '!(sg_ext(xt_sigma, %s) && (self->assigns.n == %s || sg_lit(xt_sigma, sp_mk_lit(%s, 1)) == %s)) || %s' % (A0, N0, N0, formula, LOG)),
            ('at_most_one_new_variable', 'self->assigns.n <= %s + 1' % N0),
            ('log_bounded', 'xt_ncl >= %s && xt_ncl <= %s + %d' % (NCL0, NCL0, maxcl)), EXPRS_GROWTH, RES_IS_NEW]


def conj_contract(nl):
    return Contract(requires=pre(nl + 1, 1, ['sp_lits_ok(self->assigns, ls, %d)' % nl]), ensures=reified('sg_all(xt_sigma, ls)', nl + 1, nl), assigns=FRAME)


def disj_contract(nl):
    return Contract(requires=pre(nl + 1, 1, ['sp_lits_ok(self->assigns, ls, %d)' % nl]), ensures=reified('sg_sat_lits(xt_sigma, ls)', nl + 1, nl), assigns=FRAME)


AMO = '(sg_count(xt_sigma, ls) <= 1)'


def amo_contract(nl):
    """pairwise at-most-one over <= nl (<= 3) literals: the literal, when true, forces the constraint; no assignment that
    satisfies the constraint is excluded (it can always be extended with the literal true); nothing else is constrained"""
    mc = max(nl * (nl - 1) // 2, nl)
    return Contract(
        requires=pre(mc, 1, ['sp_lits_ok(self->assigns, ls, %d)' % nl]),
        ensures=[('noexcept', '__exc == 0'),
                 ('result_in_range', 'sp_var(%s) < self->assigns.n' % R),
                 ('forces_constraint', '!(sg_ext(xt_sigma, self->assigns) && %s && sg_lit(xt_sigma, %s)) || %s' % (LOG, R, AMO)),
                 ('root_assignment_unchanged', UNCHANGED),
                 ('excludes_nothing', '!(sg_ext(xt_sigma, %s) && (self->assigns.n == %s || sg_lit(xt_sigma, sp_mk_lit(%s, 1)) == %s)) || (%s && (!%s || sg_lit(xt_sigma, %s) || self->assigns.n == %s))' % (
                     A0, N0, N0, AMO, LOG, AMO, R, N0)),
                 ('pairwise_exact', '!(sg_ext(xt_sigma, %s) && !sp_any_root_true(%s, ls) && self->assigns.n == %s + 1 && (!sg_lit(xt_sigma, sp_mk_lit(%s, 1)) || %s)) || %s' % (A0, A0, N0, N0, AMO, LOG)),
                 ('creates_variable_when_open', '!(sp_open_count(%s, ls) >= 2 && !sp_any_root_true(%s, ls)) || self->assigns.n == %s + 1' % (A0, A0, N0)),
                 ('true_when_satisfied_without_new_variable', '!(self->assigns.n == %s && sg_ext(xt_sigma, %s) && %s) || sg_lit(xt_sigma, %s)' % (N0, A0, AMO, R)),
                 ('at_most_one_new_variable', 'self->assigns.n <= %s + 1' % N0),
                 ('log_bounded', 'xt_ncl >= %s && xt_ncl <= %s + %d' % (NCL0, NCL0, mc)), EXPRS_GROWTH, RES_IS_NEW],
        assigns=FRAME)


EXO = '(sg_count(xt_sigma, ls) == 1)'


def exo_contract(nl):
    """the exactly-one literal is a variable of its own (it implies the at-most-one literal and the at-least-one clause), so
    up to two variables are created: N0 (the at-most-one's) and N0 + 1 (the result); on the root-true shortcut the only new
    variable is new_conj's"""
    mc = max(nl * (nl - 1) // 2, nl) + 2
    NEWV = ('(self->assigns.n == %s || (sg_lit(xt_sigma, sp_mk_lit(self->assigns.n - 1, 1)) == %s && '
            '(self->assigns.n != %s + 2 || sg_lit(xt_sigma, sp_mk_lit(%s, 1)) == %s)))' % (N0, EXO, N0, N0, AMO))
    return Contract(
        requires=pre(mc, 2, ['sp_lits_ok(self->assigns, ls, %d)' % nl], exprs_room=4),
        ensures=[('noexcept', '__exc == 0'),
                 ('result_in_range', 'sp_var(%s) < self->assigns.n' % R),
                 ('forces_constraint', '!(sg_ext(xt_sigma, self->assigns) && %s && sg_lit(xt_sigma, %s)) || %s' % (LOG, R, EXO)),
                 ('root_assignment_unchanged', UNCHANGED),
                 ('excludes_nothing', '!(sg_ext(xt_sigma, %s) && %s) || (%s && (!%s || sg_lit(xt_sigma, %s) || self->assigns.n == %s))' % (A0, NEWV, LOG, EXO, R, N0)),
                 ('creates_its_own_variable_when_open', '!(sp_open_count(%s, ls) >= 2 && !sp_any_root_true(%s, ls)) || self->assigns.n == %s + 2' % (A0, A0, N0)),
                 ('true_when_satisfied_without_new_variable', '!(self->assigns.n == %s && sg_ext(xt_sigma, %s) && %s) || sg_lit(xt_sigma, %s)' % (N0, A0, EXO, R)),
                 ('at_most_two_new_variables', 'self->assigns.n <= %s + 2' % N0),
                 ('log_bounded', 'xt_ncl >= %s && xt_ncl <= %s + %d' % (NCL0, NCL0, mc)), ('exprs_growth_bounded', 'self->exprs.n <= __CPROVER_old(self->exprs.n) + 4'),
                 ('result_is_the_last_new_variable', 'self->assigns.n == %s || %s.x == sp_mk_lit(self->assigns.n - 1, 1).x' % (N0, R))],
        assigns=FRAME)


UNREACHABLE = Contract(requires=['0 /* not reachable in this job */'], ensures=[], assigns='')


def jobs(tier):
    out = []
    nv0 = 4

    def J(name, target, contract, d, replace=(NEW_VAR, NEW_CLAUSE), callee=None, replay=None, **kw):
        cc = {NEW_VAR: C_NEW_VAR, NEW_CLAUSE: C_NEW_CLAUSE}
        cc.update(callee or {})
        CAPS = {'vec_lit': d['XT_MAXLITS'], 'vec_us': d['XT_MAXV'], 'vec_U': 2, 'umap_str_lit': d['XT_EXPRS_CAP']}
        unwind = d['XT_MAXLITS'] + 1
        out.append(Job('sat.' + name, target, tus=TUS, contract=contract, defines=d, unwind=unwind,
                       model_unwind=max(d['XT_MAXLITS'], d['XT_MAXV'], d['XT_MAXCL'], d['XT_EXPRS_CAP'], d['CM_STR_CAP'], 9) + 1,
                       spec_headers=SPEC, callee_contracts={k: v for k, v in cc.items() if k in replace},
                       replace=list(replace), exceptions=True, caps=CAPS, abstract_fields=ABS, harness_pre=HPRE, timeout=2400, solver=SOLVER,
                       replay={'driver': 'sat', 'stanza': REPLAY_HEAD + replay} if replay else None,
                       bounded='<= %d pre-existing variables with symbolic root values; argument lists as stated per job; container capacities %s' % (nv0, CAPS), **kw))

    REC = ['sp_rec_assigns(200, self->assigns) && sp_rec_lits(0, ls) && xt_recu(90, xt_sigma)']
    RP_LS = '  std::vector<lit> ls = mk_lits(0);\n'

    # ---- new_eq (all nine root-value combinations, both signs, equal / complementary arguments: all symbolic)
    EQF = '(sg_lit(xt_sigma, *left) == sg_lit(xt_sigma, *right))'
    c_eq = Contract(requires=pre(4, 1, ['__CPROVER_is_fresh(left, sizeof(*left)) && __CPROVER_is_fresh(right, sizeof(*right))',
                                        'sp_var(*left) < self->assigns.n && sp_var(*right) < self->assigns.n',
                                        'sp_rec_assigns(200, self->assigns) && xt_recu(0, left->x) && xt_recu(1, right->x) && xt_recu(2, xt_sigma)'],
                                 cache='sp_exprs_fresh_for_2(self->exprs, XT_EXPRS_CAP - %d, *left, *right)'),
                    ensures=reified(EQF, 4, 2), assigns=FRAME)
    J('new_eq', EQ_T, c_eq, d=defines(nv0, maxv=6, maxcl=4, maxlits=4, exprs_cap=4, str_cap=6),
      replay='''  lit l = mk_lit_x(S[0]), r = mk_lit_x(S[1]);
  lit ret = sat->new_eq(l, r);
  sem_result sr = check_reified(*sat, A0, ncl0, ret, [&](unsigned long s) { return sg(s, l) == sg(s, r); }, false);
  ok = sr.sound && sr.conservative; observed = "new_eq(" + show(l) + ", " + show(r) + ") = " + show(ret) + ":" + sr.why; required = "literal equivalent to (l <-> r) in every model, no assignment excluded";
''')

    # ---- new_conj / new_disj over <= 3 symbolic literals (signs, repetitions, root pre-assignments all symbolic)
    NL = 3
    for name, target, mk, cpp in (('new_conj', CONJ_T, conj_contract, 'bool f = true; for (auto &l : ls) f = f && sg(s, l); return f;'),
                                  ('new_disj', DISJ_T, disj_contract, 'bool f = false; for (auto &l : ls) f = f || sg(s, l); return f;')):
        c = mk(NL)
        c.requires += REC
        J(name, target, c, d=defines(nv0, maxv=6, maxcl=NL + 1, maxlits=4, exprs_cap=4, str_cap=8),
          replay=RP_LS + '''  lit ret = sat->%s(ls);
  sem_result sr = check_reified(*sat, A0, ncl0, ret, [&](unsigned long s) { %s }, false);
  ok = sr.sound && sr.conservative; observed = "%s(" + show(ls) + ") = " + show(ret) + ":" + sr.why; required = "literal equivalent to the formula in every model, no assignment excluded";
''' % (name, cpp, name))

    # ---- new_at_most_one, pairwise encoding
    NA = 2   # both tiers: 3 argument literals exhaust the memory of this sandbox for the single-call cardinality jobs; 3-literal lists are covered by sat.pair_amo_amo_root_values
    c = amo_contract(NA)
    c.requires += REC
    J('new_at_most_one_pairwise', AMO_T, c,
      d=dict(defines(nv0, maxv=6, maxcl=max(NA * (NA - 1) // 2, NA), maxlits=3, exprs_cap=4, str_cap=(6 if NA == 2 else 8)), CM_SQRT_UNREACHABLE=1), mem_gb=40, mem_est=17,
      replace=(NEW_VAR, NEW_CLAUSE, AMO_T + '_rec', CONJ_T), callee={AMO_T + '_rec': UNREACHABLE, CONJ_T: conj_contract(NA - 1)},
      call_alias={(AMO_T, AMO_T): AMO_T + '_rec'},
      replay=RP_LS + '''  lit ret = sat->new_at_most_one(ls);
  auto amo = [&](unsigned long s) { std::set<size_t> t; for (auto &l : ls) if (sg(s, l)) t.insert(index(l)); return t.size() <= 1; };
  sem_result sr = check_reified(*sat, A0, ncl0, ret, amo, true);
  bool keeps = true;   // every assignment with at most one true argument must remain possible with the literal true
  for (unsigned long s0 = 0; s0 < (1ul << A0.size()) && keeps; s0++)
    if (sg_ext(s0, A0) && amo(s0)) { bool found = false; for (unsigned long x = 0; x < (1ul << (sat->assigns.size() - A0.size())) && !found; x++) { unsigned long s = s0 | (x << A0.size()); found = sg_ext(s, sat->assigns) && sg_sat_db(s, *sat, 0) && sg(s, ret); } if (!found) { keeps = false; sr.why += " sigma0=" + std::to_string(s0) + " satisfies at-most-one but cannot make the literal true;"; } }
  ok = sr.sound && sr.conservative && keeps; observed = "new_at_most_one(" + show(ls) + ") = " + show(ret) + ":" + sr.why; required = "literal true forces at-most-one; no satisfying assignment excluded";
''')

    # ---- new_exct_one (pairwise at-most-one of its callee + the at-least-one clause)
    c = exo_contract(NA)
    c.requires += REC
    J('new_exct_one', EXO_T, c,
      d=dict(defines(nv0, maxv=6, maxcl=max(NA * (NA - 1) // 2, NA) + 2, maxlits=3, exprs_cap=5, str_cap=(6 if NA == 2 else 8)), CM_SQRT_UNREACHABLE=1), mem_gb=40, mem_est=12,
      replace=(NEW_VAR, NEW_CLAUSE, AMO_T, CONJ_T), callee={AMO_T: amo_contract(NA), CONJ_T: conj_contract(NA - 1)},
      replay=RP_LS + '''  lit ret = sat->new_exct_one(ls);
  auto exo = [&](unsigned long s) { std::set<size_t> t; for (auto &l : ls) if (sg(s, l)) t.insert(index(l)); return t.size() == 1; };
  sem_result sr = check_reified(*sat, A0, ncl0, ret, exo, true);
  bool keeps = true;
  for (unsigned long s0 = 0; s0 < (1ul << A0.size()) && keeps; s0++)
    if (sg_ext(s0, A0) && exo(s0)) { bool found = false; for (unsigned long x = 0; x < (1ul << (sat->assigns.size() - A0.size())) && !found; x++) { unsigned long s = s0 | (x << A0.size()); found = sg_ext(s, sat->assigns) && sg_sat_db(s, *sat, 0) && sg(s, ret); } if (!found) { keeps = false; sr.why += " sigma0=" + std::to_string(s0) + " satisfies exactly-one but cannot make the literal true;"; } }
  ok = sr.sound && sr.conservative && keeps; observed = "new_exct_one(" + show(ls) + ") = " + show(ret) + ":" + sr.why; required = "literal true forces exactly-one; no assignment excluded";
''')

    # ---- the callees themselves: new_var and new_clause bodies against the contracts their callers assumed
    ENQ = 'smt_sat_core_enqueue__lit__constrp'
    CLNEW = 'smt_clause_new_clause__sat_core__vec_lit'
    C_ENQ = Contract(requires=['sp_var(*p) < self->assigns.n'],
                     ensures=[('post', 'sp_enqueue_post(__CPROVER_old(self->assigns), self->assigns, *p, %s)' % R)], assigns='self->assigns')
    C_CLNEW = Contract(requires=['xt_ncl < XT_MAXCL && lits.n >= 2 && lits.n <= XT_MAXLITS'],
                       ensures=[('logged', 'xt_ncl == __CPROVER_old(xt_ncl) + 1 && sp_clause_is(xt_cl[__CPROVER_old(xt_ncl)], lits)'), ('nonnull', '%s != 0' % R)],
                       assigns='xt_ncl, xt_cl[xt_ncl]')
    dnc = defines(nv0, maxv=6, maxcl=2, maxlits=4, exprs_cap=2, str_cap=4)
    cb = Contract(requires=[FRESH, '__exc == 0 && sp_assigns_wf(self->assigns, XT_NV0 + 2) && self->constrs.n < 2'] + C_NEW_CLAUSE_BODY.requires +
                  ['sp_rec_assigns(200, self->assigns) && sp_rec_lits(0, lits) && xt_recu(90, xt_sigma)'],
                  ensures=[('noexcept', '__exc == 0')] + C_NEW_CLAUSE_BODY.ensures, assigns='__exc, xt_ncl, xt_cl[xt_ncl], self->assigns, self->constrs')
    out.append(Job('sat.new_clause_body', NEW_CLAUSE, tus=TUS, contract=cb, defines=dnc, unwind=5, model_unwind=10, spec_headers=SPEC + ['sat_spec3.h'],
                   callee_contracts={ENQ: C_ENQ, CLNEW: C_CLNEW}, replace=[ENQ, CLNEW], exceptions=True,
                   caps={'vec_lit': 4, 'vec_us': 6, 'vec_U': 2, 'umap_str_lit': 2, 'vec_constrp': 3},
                   abstract_fields={'smt::sat_core': ['assigns', 'trail_lim', 'constrs', 'exprs'], 'smt::constr': []}, harness_pre=HPRE, timeout=2400,
                   replay={'driver': 'sat', 'stanza': REPLAY_HEAD + RP_LS + '''  bool ret = sat->new_clause(ls);
  // oracle: the network after the call has exactly the models of (network before) + clause
  bool okk = true; std::string why;
  for (unsigned long s = 0; s < (1ul << A0.size()); s++) if (sg_ext(s, A0)) {
    bool cl = false; for (auto &l : ls) cl = cl || sg(s, l);
    bool after = ret && sg_ext(s, sat->assigns) && sg_sat_db(s, *sat, 0);
    if (after != cl) { okk = false; why = " sigma=" + std::to_string(s) + " clause " + std::to_string(cl) + " network " + std::to_string(after); break; } }
  ok = okk; observed = "new_clause(" + show(ls) + ") = " + std::to_string(ret) + ":" + why; required = "afterwards the network's models are exactly the assignments extending the old root assignment that satisfy the clause";
'''}, bounded='<= 4 literals, <= 6 variables'))

    # new_var: the callers' contract, on the real body (fields the callers never read are part of this job's state only)
    cnv = Contract(requires=[FRESH, '__exc == 0', 'sp_assigns_wf(self->assigns, XT_NV0 + 1) && sp_exprs_shape(self->exprs, XT_EXPRS_CAP - 1)',
                             'self->watches.n == 2 * self->assigns.n && self->level.n == self->assigns.n && self->reason.n == self->assigns.n'],
                   ensures=[('noexcept', '__exc == 0')] + C_NEW_VAR.ensures +
                   [('watch_lists_for_both_literals', 'self->watches.n == 2 * self->assigns.n && self->watches.e[self->watches.n - 1].n == 0 && self->watches.e[self->watches.n - 2].n == 0'),
                    ('level_and_reason_initialised', 'self->level.n == self->assigns.n && self->reason.n == self->assigns.n && self->level.e[self->level.n - 1] == 0 && self->reason.e[self->reason.n - 1] == 0')],
                   assigns='__exc, self->assigns, self->exprs, self->watches, self->level, self->reason')
    out.append(Job('sat.new_var_body', NEW_VAR, tus=TUS, contract=cnv, defines=defines(nv0, maxv=6, maxcl=2, maxlits=2, exprs_cap=4, str_cap=4), unwind=3, model_unwind=13,
                   spec_headers=SPEC, exceptions=True, caps={'vec_us': 6, 'umap_str_lit': 4, 'vec_vec_constrp': 12, 'vec_constrp': 7, 'vec_U': 6, 'vec_lit': 2},
                   abstract_fields={'smt::sat_core': ['assigns', 'exprs', 'watches', 'level', 'reason'], 'smt::constr': []}, harness_pre=HPRE, timeout=1200, force_types=['std::vector<smt::lit>'],
                   bounded='<= 5 pre-existing variables'))

    # ---- histories of two requests (cache hit or miss): see c13_pairs.py
    import sys
    from contracts import c13_pairs
    out.extend(c13_pairs.jobs(sys.modules[__name__], tier))

    # ---- new_at_most_one, product encoding (>= 4 literals), on CONCRETE argument structures with a symbolic assignment: the whole
    # real code runs inline (constructor, new_var, the recursion on the row/column selectors, new_conj, new_clause down to
    # clause::new_clause), so the network is concrete and only xt_sigma is symbolic.  The harness reads the real clause
    # database.  Obligations: the literal, when true, forces at-most-one in every model of the stored clauses; and for each of
    # the n + 1 argument patterns with at most one true argument a reachability witness shows that some model has the
    # literal true (nothing that satisfies the constraint is excluded).  One job per argument count: bounded, not a proof.
    out.extend(product_jobs(tier))
    return out


def product_jobs(tier):
    out = []
    LST = 'smt_sat_value_listener_sat_value_change__U'
    for NP in ((5,) if tier == 'quick' else (4, 5, 6, 7)):
        signs = [(0 if (k % 3) == 1 else 1) for k in range(NP)]            # b1, !b2, b3, b4, !b5, ...
        MAXV = NP + 1 + 12
        harn = ['void xt_harness(void)', '{', '  __exc = 0;', '  xt_init_globals();', '  { unsigned int sg; xt_sigma = sg; }',
                '  struct smt_sat_core s = smt_sat_core_ctor();',
                '  for (int i = 0; i < %d; i++) smt_sat_core_new_var(&s);' % NP,
                '  struct vec_lit ls; ls.n = %d;' % NP]
        for k in range(NP):
            harn.append('  ls.e[%d].x = (U_t)%d;' % (k, ((k + 1) << 1) + signs[k]))
        harn += ['  U_t n0 = s.assigns.n;',
                 '  xt_recu(90, xt_sigma);',
                 '  struct smt_lit ret = smt_sat_core_new_at_most_one__vec_lit(&s, ls);',
                 '  __CPROVER_assert(__exc == 0, "noexcept");',
                 '  __CPROVER_assert(s.assigns.n > n0 + 2 && s.assigns.n <= XT_MAXV, "product_encoding_used");',
                 '  /* sigma is a model: it extends the root assignment and satisfies every stored clause */',
                 '  _Bool model = 1;',
                 '  for (U_t v = 0; v < XT_MAXV; v++) if (v < s.assigns.n && s.assigns.e[v] != 2 && (((xt_sigma >> v) & 1u) != 0) != (s.assigns.e[v] == 1)) model = 0;',
                 '  for (U_t c = 0; c < XT_MAXCL; c++)',
                 '    if (c < s.constrs.n)',
                 '    {',
                 '      struct smt_clause *cl = (struct smt_clause *)s.constrs.e[c];',
                 '      _Bool sat = 0;',
                 '      for (U_t k = 0; k < XT_MAXLITS; k++) if (k < cl->lits.n && sg_lit(xt_sigma, cl->lits.e[k])) sat = 1;',
                 '      if (!sat) model = 0;',
                 '    }',
                 '  U_t cnt = 0;',
                 '  for (U_t k = 0; k < %d; k++) if (sg_lit(xt_sigma, ls.e[k])) cnt++;' % NP,
                 '  __CPROVER_assert(!(model && sg_lit(xt_sigma, ret)) || cnt <= 1, "forces_constraint");',
                 '  for (U_t v = 0; v < n0; v++) __CPROVER_assert(s.assigns.e[v] == (v == 0 ? 0 : 2), "root_assignment_unchanged");']
        harn.append('  __CPROVER_assert(!(model && sg_lit(xt_sigma, ret) && cnt == 0), "WITNESS_no_argument_true_is_still_possible");')
        for k in range(NP):
            harn.append('  __CPROVER_assert(!(model && sg_lit(xt_sigma, ret) && cnt == 1 && sg_lit(xt_sigma, ls.e[%d])), "WITNESS_only_argument_%d_true_is_still_possible");' % (k, k))
        harn += ['  __CPROVER_assert(xt_canary, "xt canary");', '}', '']
        d = dict(defines(NP + 1, maxv=MAXV, maxcl=40, maxlits=max(NP, 3), exprs_cap=MAXV + 8, str_cap=2 * NP + 2), XT_NP=NP)
        caps = {'vec_lit': max(NP, 3), 'vec_us': MAXV, 'vec_U': MAXV, 'umap_str_lit': MAXV + 8, 'vec_constrp': 40, 'vec_vec_constrp': 2 * MAXV, 'queue': 2,
                'umap_U_set_sat_value_listenerp': 1, 'set_sat_value_listenerp': 1}
        out.append(Job('sat.new_at_most_one_product_%d' % NP, AMO_T, tus=TUS + ['smt/clause.cpp', 'smt/constr.cpp'], contract=None, enforce=False, defines=d,
                       unwind=2 * MAXV + 4, model_unwind=2 * MAXV + 12, spec_headers=['sat_spec.h'],
                       callee_contracts={LST: Contract(requires=['1'], ensures=['1'], assigns='')}, replace=[LST], exceptions=True, caps=caps,
                       abstract_fields={'smt::sat_core': ['constrs', 'watches', 'assigns', 'prop_q', 'trail', 'trail_lim', 'reason', 'level', 'exprs', 'listening'],
                                        'smt::constr': ['sat', 'id'], 'smt::clause': ['lits'], 'smt::sat_value_listener': []},
                       harness='\n'.join(harn), roots=['smt_sat_core_ctor', 'smt_sat_core_new_var'], timeout=3000, mem_gb=32, mem_est=10, solver=SOLVER,
                       replay={'driver': 'sat', 'stanza': PRODUCT_REPLAY % (NP, ', '.join(str(x) for x in signs), NP)},
                       force_types=['std::vector<smt::lit>', 'std::vector<unsigned short>', 'std::vector<std::vector<smt::constr *>>', 'std::vector<smt::constr *>', 'std::vector<unsigned long>'],
                       bounded='BOUNDED STAND-IN, not a proof: one concrete argument list of %d distinct undecided literals (signs %s) on a fresh network; symbolic assignment; '
                               'the whole real code inline' % (NP, ''.join('+' if x else '-' for x in signs))))
    return out


PRODUCT_REPLAY = '''  sat_core *sat = new sat_core(); for (int i = 0; i < %d; i++) sat->new_var();
  std::vector<lit> ls; { const int sg_[] = {%s}; for (int k = 0; k < %d; k++) ls.push_back(lit((var)(k + 1), sg_[k] != 0)); }
  lit ret = sat->new_at_most_one(ls);
  // over all models of the real clause database: the literal forces at-most-one, and every pattern with at most one true argument keeps a model with the literal true
  size_t nv = sat->assigns.size(); std::string why; std::set<unsigned long> possible;
  for (unsigned long s = 0; s < (1ul << nv); s++)
    if (sg_ext(s, sat->assigns) && sg_sat_db(s, *sat, 0) && sg(s, ret))
    {
      unsigned long pat = 0; size_t c = 0; for (size_t k = 0; k < ls.size(); k++) if (sg(s, ls[k])) { pat |= 1ul << k; c++; }
      if (c > 1 && why.empty()) { ok = false; why += " model sigma=" + std::to_string(s) + " has the literal true and " + std::to_string(c) + " arguments true;"; }
      possible.insert(pat);
    }
  if (!possible.count(0)) { ok = false; why += " no model with the literal true and no argument true;"; }
  for (size_t k = 0; k < ls.size(); k++) if (!possible.count(1ul << k)) { ok = false; why += " no model with the literal true and only argument " + std::to_string(k) + " true;"; }
  observed = "new_at_most_one(" + show(ls) + ") = " + show(ret) + ":" + why; required = "literal true forces at-most-one; no satisfying pattern excluded";
'''


# what the evidence file says is NOT decided by this module, and what it assumes
INFO = {'not_under_contract': ['histories of more than two requests (cache reuse is covered for two)', 'the product encoding of new_at_most_one beyond the concrete lists of the bounded stand-in', 'digit-level structure of the cache keys (a number is one token in the string model)', 'core.cpp / ov_theory.cpp call sites of these constructs'], 'assumptions': ['value listeners of sat_core do not touch the network (no listener is registered in these jobs)']}
