"""C14 — object variables take exactly one allowed value; equality means same value (DESIGN §5/C14).

sat_core::new_var / new_clause / new_exct_one are replaced by (network-level versions of) their C13 contracts; all semantic
statements are about the single ghost assignment xt_sigma and the ghost clause log, as in C13."""
from vlib.engine import Contract, Job, Known

TUS = ['smt/ov/ov_theory.cpp', 'smt/theory.cpp']
SPEC = ['sat_spec.h', 'ov_spec.h']
R = '__CPROVER_return_value'
ABS = {'smt::sat_core': ['assigns'], 'smt::theory': ['sat', 'cnfl'], 'smt::ov_theory': ['assigns', 'exprs', 'is_contained_in'], 'smt::var_value': [],
       'smt::ov_value_listener': []}
SAT = 'self->base_theory.sat'
NEW_VAR = 'smt_sat_core_new_var'
NEW_CLAUSE = 'smt_sat_core_new_clause__vec_lit'
EXO = 'smt_sat_core_new_exct_one__vec_lit'
BIND = 'smt_theory_bind__U'
OLD = lambda e: '__CPROVER_old(%s)' % e

# network-level contracts of the sat_core callees (the same statements as in contracts/c13.py, restricted to the fields
# this translation unit's callers can see: the assigns vector and the ghost clause log)
C_NEW_VAR = Contract(requires=['self->assigns.n < XT_MAXV'],
                     ensures=[('returns_fresh_index', '%s == %s' % (R, OLD('self->assigns.n'))),
                              ('assigns_grown', 'self->assigns.n == %s + 1 && sp_assigns_grown(%s, self->assigns)' % (OLD('self->assigns.n'), OLD('self->assigns')))],
                     assigns='self->assigns')
C_NEW_CLAUSE = Contract(requires=['sp_lits_ok(self->assigns, lits, XT_MAXLITS) && xt_ncl < XT_MAXCL'],
                        ensures=[('post', 'sp_new_clause_post(%s, self->assigns, lits, %s, xt_ncl, %s, xt_sigma)' % (OLD('self->assigns'), OLD('xt_ncl'), R))],
                        assigns='xt_ncl, xt_cl[xt_ncl], self->assigns')
LOGC = 'sg_sat_log(xt_sigma, %s, xt_ncl)' % OLD('xt_ncl')
C_EXO = Contract(requires=['sp_lits_ok(self->assigns, ls, XT_MAXLITS) && xt_ncl + 5 <= XT_MAXCL && self->assigns.n + 1 < XT_MAXV'],
                 ensures=[('result_in_range', 'sp_var(%s) < self->assigns.n' % R),
                          ('forces_constraint', '!(sg_ext(xt_sigma, self->assigns) && %s && sg_lit(xt_sigma, %s)) || sg_count(xt_sigma, ls) == 1' % (LOGC, R)),
                          ('root_assignment_unchanged', 'sp_assigns_grown(%s, self->assigns)' % OLD('self->assigns')),
                          # as proved in contracts/c13.py (exo_contract): the exactly-one literal is a variable of its own, created after
                          # the at-most-one's, so up to two variables are new and the result is the last of them
                          ('at_most_two_new_variables', 'self->assigns.n <= %s + 2' % OLD('self->assigns.n')),
                          ('creates_its_own_variable_when_open', '!(sp_open_count(%s, ls) >= 2 && !sp_any_root_true(%s, ls)) || self->assigns.n == %s + 2' % (OLD('self->assigns'), OLD('self->assigns'), OLD('self->assigns.n'))),
                          ('result_is_the_last_new_variable', 'self->assigns.n == %s || %s.x == sp_mk_lit(self->assigns.n - 1, 1).x' % (OLD('self->assigns.n'), R)),
                          ('log_bounded', 'xt_ncl >= %s && xt_ncl <= %s + 5' % (OLD('xt_ncl'), OLD('xt_ncl')))],
                 assigns='xt_ncl, __CPROVER_object_whole(xt_cl), self->assigns')
C_BIND = Contract(requires=['1'], ensures=['1'], assigns='')
# meaning contracts of the other reified constructs of sat_core, used only if the code under proof calls them
SAT_EQ = 'smt_sat_core_new_eq__lit__lit'
SAT_CONJ = 'smt_sat_core_new_conj__vec_lit'
SAT_DISJ = 'smt_sat_core_new_disj__vec_lit'


def _reified(formula, args_ok):
    return Contract(requires=[args_ok + ' && xt_ncl + 4 <= XT_MAXCL && self->assigns.n < XT_MAXV'],
                    ensures=[('result_in_range', 'sp_var(%s) < self->assigns.n' % R),
                             ('equivalent', '!(sg_ext(xt_sigma, self->assigns) && %s) || sg_lit(xt_sigma, %s) == %s' % (LOGC, R, formula)),
                             ('root_assignment_unchanged', 'sp_assigns_grown(%s, self->assigns)' % OLD('self->assigns')),
                             ('conservative', '!(sg_ext(xt_sigma, %s) && (self->assigns.n == %s || sg_lit(xt_sigma, sp_mk_lit(%s, 1)) == %s)) || %s' % (
                                 OLD('self->assigns'), OLD('self->assigns.n'), OLD('self->assigns.n'), formula, LOGC)),
                             ('at_most_one_new_variable', 'self->assigns.n <= %s + 1' % OLD('self->assigns.n')),
                             ('log_bounded', 'xt_ncl >= %s && xt_ncl <= %s + 4' % (OLD('xt_ncl'), OLD('xt_ncl')))],
                    assigns='xt_ncl, __CPROVER_object_whole(xt_cl), self->assigns')


C_SAT_EQ = _reified('(sg_lit(xt_sigma, *left) == sg_lit(xt_sigma, *right))', 'sp_var(*left) < self->assigns.n && sp_var(*right) < self->assigns.n')
C_SAT_CONJ = _reified('sg_all(xt_sigma, ls)', 'sp_lits_ok(self->assigns, ls, XT_MAXLITS)')
C_SAT_DISJ = _reified('sg_sat_lits(xt_sigma, ls)', 'sp_lits_ok(self->assigns, ls, XT_MAXLITS)')
HPRE = '  { unsigned int sg; xt_sigma = sg; }'


def jobs(tier):
    out = []
    DOM = 2 if tier == 'quick' else 3
    MAXV = 4 + DOM + 3     # existing variables + one per value + the two of new_exct_one (its at-most-one's and its own) + 1
    d = {'U_BITS': 16, 'CM_STR_CAP': 6, 'XT_MAXV': MAXV, 'XT_MAXLITS': 3, 'XT_MAXCL': 12, 'XT_DOM': DOM}
    caps = {'vec_us': MAXV, 'vec_lit': 3, 'umap_var_valuep_lit': DOM, 'vec_umap_var_valuep_lit': 3, 'umap_str_lit': 2, 'umap_U_set_U': DOM + 1, 'set_U': 1,
            'vec_var_valuep': DOM, 'uset_var_valuep': DOM}
    FORCE = ['std::vector<smt::lit>', 'std::vector<unsigned short>', 'std::vector<smt::var_value *>', 'std::unordered_set<smt::var_value *>']
    FRESH = '__CPROVER_is_fresh(self, sizeof(*self)) && __CPROVER_is_fresh(%s, sizeof(*%s))' % (SAT, SAT)
    NET = 'sp_assigns_wf(%s->assigns, 4) && xt_ncl == 0 && __exc == 0' % SAT

    def J(name, target, contract, replace, unwind=DOM + 2, extra=None, **kw):
        cc = {NEW_VAR: C_NEW_VAR, NEW_CLAUSE: C_NEW_CLAUSE, EXO: C_EXO, BIND: C_BIND, SAT_EQ: C_SAT_EQ, SAT_CONJ: C_SAT_CONJ, SAT_DISJ: C_SAT_DISJ}
        cc.update(extra or {})
        replace = list(replace) + ([SAT_EQ, SAT_CONJ, SAT_DISJ] if replace else [])
        out.append(Job('ov.' + name, target, tus=TUS, contract=contract, defines=d, unwind=unwind, model_unwind=13, spec_headers=SPEC,
                       callee_contracts={k: cc[k] for k in replace}, replace=list(replace), exceptions=True, caps=caps, abstract_fields=ABS,
                       harness_pre=HPRE, force_types=FORCE, timeout=2400, mem_gb=24, mem_est=4, solver='cadical',
                       bounded='domains of <= %d values, <= 2 existing object variables, <= 4 existing propositional variables with symbolic root values' % DOM, **kw))

    A0 = OLD(SAT + '->assigns')
    NEWDOM = 'self->assigns.e[self->assigns.n - 1]'
    # ---- new_var(items, enforce): one literal per distinct value, a singleton is TRUE_lit, exactly one value in every model
    J('new_var', 'smt_ov_theory_new_var__vec_var_valuep__b',
      Contract(requires=[FRESH + ' && __CPROVER_is_fresh(items, sizeof(*items))', NET, 'items->n >= 1 && items->n <= XT_DOM && self->assigns.n <= 2 && self->is_contained_in.n == 0',
                         'items->e[0] != 0 && (items->n < 2 || items->e[1] != 0) && (items->n < 3 || items->e[2] != 0)', 'enforce_exct_one == 1',
                         '(items->n < 2 || items->e[0] != items->e[1]) && (items->n < 3 || (items->e[0] != items->e[2] && items->e[1] != items->e[2]))'],
               ensures=[('noexcept', '__exc == 0'),
                        ('returns_new_index', '%s == %s && self->assigns.n == %s + 1' % (R, OLD('self->assigns.n'), OLD('self->assigns.n'))),
                        ('domain_is_the_items', 'sv_dom_of_items(%s, *items)' % NEWDOM),
                        ('singleton_is_true', 'items->n != 1 || %s.e[0].second.x == 0' % NEWDOM),
                        ('exactly_one_value_in_every_model', '!(sg_ext(xt_sigma, %s->assigns) && sg_sat_log(xt_sigma, 0, xt_ncl)) || sv_count(xt_sigma, %s) == 1' % (SAT, NEWDOM)),
                        ('old_root_values_kept', 'sp_assigns_upd(%s, %s->assigns, %s->assigns.n, 0) || %s->assigns.n > %s.n' % (A0, SAT, SAT, SAT, A0))],
               assigns='__exc, xt_ncl, __CPROVER_object_whole(xt_cl), %s->assigns, self->assigns, self->is_contained_in' % SAT),
      replace=[NEW_VAR, NEW_CLAUSE, EXO, BIND])
    # ---- new_var(lits, vals): the domain is exactly vals[i] -> lits[i]; the propositional variables know the object variable
    J('new_var_lits', 'smt_ov_theory_new_var__vec_lit__vec_var_valuep',
      Contract(requires=[FRESH + ' && __CPROVER_is_fresh(lits, sizeof(*lits)) && __CPROVER_is_fresh(vals, sizeof(*vals))', NET,
                         'lits->n >= 1 && lits->n <= XT_DOM && vals->n == lits->n && self->assigns.n <= 2 && self->is_contained_in.n == 0',
                         'sp_lits_ok(%s->assigns, *lits, XT_DOM)' % SAT,
                         'vals->e[0] != 0 && (vals->n < 2 || vals->e[1] != 0) && (vals->n < 3 || vals->e[2] != 0)',
                         '(vals->n < 2 || vals->e[0] != vals->e[1]) && (vals->n < 3 || (vals->e[0] != vals->e[2] && vals->e[1] != vals->e[2]))'],
               ensures=[('noexcept', '__exc == 0'),
                        ('returns_new_index', '%s == %s && self->assigns.n == %s + 1' % (R, OLD('self->assigns.n'), OLD('self->assigns.n'))),
                        ('domain_is_exactly_the_given_pairs', 'sv_dom_of_pairs(%s, *lits, *vals)' % NEWDOM),
                        ('propositional_variables_know_the_object_variable',
                         'sv_contained(self->is_contained_in, sp_var(lits->e[0]), %s) && (lits->n < 2 || sv_contained(self->is_contained_in, sp_var(lits->e[1]), %s)) && (lits->n < 3 || sv_contained(self->is_contained_in, sp_var(lits->e[2]), %s))' % (R, R, R)),
                        ('network_untouched', 'sp_assigns_same(%s, %s->assigns) && xt_ncl == 0' % (A0, SAT))],
               assigns='__exc, self->assigns, self->is_contained_in'),
      replace=[])
    # ---- allows(v, val): the value's literal, FALSE_lit outside the domain
    J('allows', 'smt_ov_theory_allows__U__var_value',
      Contract(requires=[FRESH + ' && __CPROVER_is_fresh(v, sizeof(*v)) && __CPROVER_is_fresh(val, sizeof(*val))', NET,
                         'self->assigns.n >= 1 && self->assigns.n <= 2 && *v < self->assigns.n', 'sv_wf_dom(self->assigns.e[*v], %s->assigns)' % SAT],
               ensures=[('noexcept', '__exc == 0'), ('literal_of_the_value', '%s.x == sv_lit_of(self->assigns.e[*v], val).x' % R)], assigns='__exc'),
      replace=[])
    # ---- value(v): exactly the values not excluded by the current assignment
    J('value', 'smt_ov_theory_value__U',
      Contract(requires=[FRESH, NET, 'self->assigns.n >= 1 && self->assigns.n <= 2 && v < self->assigns.n', 'sv_wf_dom(self->assigns.e[v], %s->assigns)' % SAT],
               ensures=[('noexcept', '__exc == 0'), ('exactly_the_non_excluded_values', 'sv_value_is(%s, self->assigns.e[v], %s->assigns)' % (R, SAT))], assigns='__exc'),
      replace=[])
    # ---- new_eq(left, right): true exactly when both take the same value; disjoint domains are never equal
    L, Rr = 'self->assigns.e[*left]', 'self->assigns.e[*right]'
    ONE = 'sv_count(xt_sigma, %s) == 1 && sv_count(xt_sigma, %s) == 1' % (L, Rr)
    SAME = 'sv_same_value(xt_sigma, %s, %s)' % (L, Rr)
    N0 = OLD(SAT + '->assigns.n')
    c_eq = (
      Contract(requires=[FRESH + ' && __CPROVER_is_fresh(left, sizeof(*left)) && __CPROVER_is_fresh(right, sizeof(*right))', NET,
                         'self->assigns.n == 2 && *left < 2 && *right < 2 && self->exprs.n == 0',
                         'sv_wf_dom(%s, %s->assigns) && sv_wf_dom(%s, %s->assigns)' % (L, SAT, Rr, SAT),
                         'sv_root_ok(%s->assigns, %s) && sv_root_ok(%s->assigns, %s)' % (SAT, L, SAT, Rr), '*left == *right || sv_no_shared_vars(%s, %s)' % (L, Rr)],
               ensures=[('noexcept', '__exc == 0'),
                        ('same_variable_is_true', '*left != *right || %s.x == 0' % R),
                        ('disjoint_domains_are_never_equal', '*left == *right || !sv_disjoint(%s, %s) || %s.x == 1' % (L, Rr, R)),
                        ('true_exactly_when_same_value', '!(sg_ext(xt_sigma, %s->assigns) && sg_sat_log(xt_sigma, 0, xt_ncl) && %s) || sg_lit(xt_sigma, %s) == (*left == *right || %s)' % (SAT, ONE, R, SAME)),
                        ('root_decisions_kept', 'sv_decided_kept(%s, %s->assigns)' % (A0, SAT)),
                        ('conservative', '!(sg_ext(xt_sigma, %s) && %s && (%s->assigns.n == %s || sg_lit(xt_sigma, sp_mk_lit(%s, 1)) == %s)) || (sg_sat_log(xt_sigma, 0, xt_ncl) && sg_ext(xt_sigma, %s->assigns))' % (A0, ONE, SAT, N0, N0, SAME, SAT)),
                        ('at_most_one_new_variable', '%s->assigns.n <= %s + 1' % (SAT, N0))],
               assigns='__exc, xt_ncl, __CPROVER_object_whole(xt_cl), %s->assigns, self->exprs' % SAT))
    # the recursive call new_eq(right, left) is verified against the function's own contract (symmetry in the arguments)
    J('new_eq', 'smt_ov_theory_new_eq__U__U', c_eq, replace=[NEW_VAR, NEW_CLAUSE, 'smt_ov_theory_new_eq__U__U_rec'], unwind=DOM + 2,
      extra={'smt_ov_theory_new_eq__U__U_rec': c_eq},
      call_alias={('smt_ov_theory_new_eq__U__U', 'smt_ov_theory_new_eq__U__U'): 'smt_ov_theory_new_eq__U__U_rec'})
    return out


# what the evidence file says is NOT decided by this module, and what it assumes
INFO = {'not_under_contract': ['var_flaw / solver::new_enum call sites', 'ov_theory propagate / push / pop', 'expression cache hits of ov_theory::new_eq'], 'assumptions': ['sat_core::new_var / new_clause / new_exct_one / new_eq / new_conj / new_disj behave as their C13 contracts say (proved there on the same source, restated here over the fields this unit sees)']}
