"""C01 (top-level obligations; DESIGN §5/C01, C04a) — a solution is reported only with no inconsistency left and no state
change since that was established.

The control skeleton of solver::solve_inconsistencies is the REAL code; everything it calls is replaced by a contract that
bumps the ghost `xt_epoch` when it may change the network (next, take_decision, record, propagate, graph::check) and
get_incs() stamps `xt_incs_epoch`/`xt_last_empty`.  The while loop carries a loop contract (inductive invariant), so the
result holds for any number of iterations: on normal return the last get_incs() returned no inconsistency and nothing
changed the network afterwards."""
from vlib.engine import Contract, Job, Known

TUS = ['solver/solver.cpp']
R = '__CPROVER_return_value'
ABS = {'ratio::solver': ['sts', 'flaws', 'gr', 'trail'], 'ratio::core': ['sat_cr'], 'ratio::scope': [], 'ratio::env': [], 'smt::theory': ['sat'],
       'ratio::graph': ['gamma'], 'ratio::smart_type': [], 'ratio::type': [], 'ratio::flaw': [], 'ratio::resolver': [], 'smt::sat_core': []}
OLD = lambda e: '__CPROVER_old(%s)' % e
GHOST0 = '''
unsigned long xt_epoch;        /* ghost: bumped by every callee that may change the network */
unsigned long xt_incs_epoch;   /* ghost: the epoch at which get_incs() last ran */
_Bool xt_last_empty;           /* ghost: whether that call returned no inconsistency */
'''
GHOST = GHOST0 + '''static inline _Bool spi_shape(struct vec_vec_pair_lit_d v)
{
  if (v.n > XT_INCS) return 0;
  for (U_t i = 0; i < XT_INCS; i++) if (i < v.n && v.e[i].n > XT_INCS) return 0;
  return 1;
}
'''
BUMP = Contract(requires=['__exc == 0'], ensures=[('state_changed', '__exc != 0 || xt_epoch == %s + 1' % OLD('xt_epoch')), ('raises_only_unsolvable', '__exc == 0 || __exc == EXC_unsolvable_exception')], assigns='xt_epoch, __exc')
BUMP_NOEXC = Contract(requires=['1'], ensures=[('state_changed', 'xt_epoch == %s + 1' % OLD('xt_epoch'))], assigns='xt_epoch')
GET_INCS = 'ratio_solver_get_incs'
C_GET_INCS = Contract(requires=['1'],
                      ensures=[('stamped', '__exc != 0 || (xt_incs_epoch == xt_epoch && xt_last_empty == (%s.n == 0) && spi_shape(%s))' % (R, R)), ('raises_only_unsolvable', '__exc == 0 || __exc == EXC_unsolvable_exception')],
                      assigns='xt_incs_epoch, xt_last_empty, __exc')
PURE = Contract(requires=['1'], ensures=['1'], assigns='')
C_DECISIONS = Contract(requires=['1'], ensures=[('valid', '__CPROVER_is_fresh(%s, sizeof(*%s)) && %s->n <= XT_INCS' % (R, R, R))], assigns='')
C_SATCORE = Contract(requires=['1'], ensures=['1'], assigns='')

# no function calls are allowed inside a loop invariant: the shape bound is written out
INV = '__exc == 0 && xt_incs_epoch == xt_epoch && xt_last_empty == (incs.n == 0) && incs.n <= XT_INCS && (incs.n < 1 || incs.e[0].n <= XT_INCS) && (incs.n < 2 || incs.e[1].n <= XT_INCS)'


def jobs(tier):
    out = []
    d = {'U_BITS': 16, 'XT_INCS': 2}
    stubs = {
        GET_INCS: C_GET_INCS,
        'ratio_solver_next': BUMP, 'ratio_solver_take_decision__lit': BUMP, 'smt_theory_record__vec_lit': BUMP_NOEXC, 'smt_sat_core_propagate': BUMP_NOEXC,
        'ratio_graph_check': BUMP, 'smt_sat_core_value__lit': PURE, 'smt_sat_core_value__U': PURE, 'smt_sat_core_get_decisions': C_DECISIONS,
        'ratio_solver_root_level': PURE, 'ratio_core_get_sat_core': C_SATCORE,
    }
    c = Contract(requires=['__CPROVER_is_fresh(self, sizeof(*self))', '__exc == 0'],
                 ensures=[('only_unsolvable_is_raised', '__exc == 0 || __exc == EXC_unsolvable_exception'),
                          ('returns_only_without_inconsistencies_and_unchanged_since', '__exc != 0 || (xt_incs_epoch == xt_epoch && xt_last_empty)')],
                 assigns='__exc, xt_epoch, xt_incs_epoch, xt_last_empty')
    out.append(Job('solver.solve_inconsistencies', 'ratio_solver_solve_inconsistencies', unit='solver', tus=TUS, contract=c, defines=d, unwind=4, model_unwind=12,
                   callee_contracts=stubs, replace=list(stubs), exceptions=True, caps={'vector': 2, 'vec_lit': 4}, abstract_fields=ABS, ghost=GHOST,
                   loop_specs={('ratio_solver_solve_inconsistencies', 1): '__CPROVER_assigns(incs, __exc, xt_epoch, xt_incs_epoch, xt_last_empty)\n__CPROVER_loop_invariant(%s)' % INV},
                   skip_asserts=['solver.cpp:522', 'solver.cpp:536'],
                   timeout=2400, solver='cadical',
                   bounded='unbounded in the number of loop iterations (loop contract); at most 2 inconsistencies of at most 2 choices per get_incs() (the selection arithmetic is unwound)'))

    # ---- solver::solve (pinned configuration: CHECK_INCONSISTENCIES off): true is returned only with no flaw left and with
    # the no-inconsistency verdict of solve_inconsistencies() still current; unsolvable_exception is the only way to "false"
    FL = 'self->flaws'
    CH = lambda extra='': Contract(requires=['__exc == 0'], ensures=[('state_changed', '__exc != 0 || xt_epoch == %s + 1' % OLD('xt_epoch')),
                                                                     ('raises_only_unsolvable', '__exc == 0 || __exc == EXC_unsolvable_exception'),
                                                                     ('flaw_set_bounded', '%s.n <= XT_INCS' % FL)], assigns='xt_epoch, __exc, %s%s' % (FL, extra))
    C_SI = Contract(requires=['__exc == 0'],
                    ensures=[('returns_only_without_inconsistencies_and_unchanged_since', '__exc != 0 || (xt_incs_epoch == xt_epoch && xt_last_empty)'),
                             ('raises_only_unsolvable', '__exc == 0 || __exc == EXC_unsolvable_exception'), ('flaw_set_bounded', '%s.n <= XT_INCS' % FL)],
                    assigns='xt_epoch, xt_incs_epoch, xt_last_empty, __exc, %s' % FL)
    C_GR = Contract(requires=['__exc == 0'], ensures=[('state_changed', '__exc != 0 || xt_epoch == %s + 1' % OLD('xt_epoch')),
                                                      ('raises_only_unsolvable', '__exc == 0 || __exc == EXC_unsolvable_exception')], assigns='xt_epoch, __exc')
    C_PTR = lambda t: Contract(requires=['1'], ensures=[('valid', '__CPROVER_is_fresh(%s, sizeof(*%s))' % (R, R))], assigns='')
    stubs2 = {
        'ratio_solver_solve_inconsistencies': C_SI, 'ratio_solver_next': CH(), 'ratio_solver_take_decision__lit': CH(),
        'ratio_graph_check': C_GR, 'ratio_graph_build': C_GR, 'smt_sat_core_value__U': PURE, 'smt_sat_core_value__lit': PURE,
        'ratio_flaw_get_estimated_cost': PURE, 'ratio_flaw_get_best_resolver': PURE, 'ratio_resolver_get_rho': PURE, 'ratio_resolver_get_estimated_cost': PURE,
        'ratio_solver_root_level': PURE, 'ratio_core_get_sat_core': C_SATCORE,
        'smt_rational_op_gt__rational': PURE,   # cost comparison of the flaw-selection heuristic: any outcome
    }
    LOOPA = '__CPROVER_assigns(%s, __exc, xt_epoch, xt_incs_epoch, xt_last_empty)\n__CPROVER_loop_invariant(__exc == 0 && %s.n <= XT_INCS)' % (FL, FL)
    c2 = Contract(requires=['__CPROVER_is_fresh(self, sizeof(*self)) && __CPROVER_is_fresh(self->gr, sizeof(*self->gr))', '__exc == 0 && %s.n <= XT_INCS' % FL],
                  ensures=[('no_exception_escapes', '__exc == 0'),
                           ('success_only_without_flaws_and_inconsistencies', '!%s || (%s.n == 0 && xt_incs_epoch == xt_epoch && xt_last_empty)' % (R, FL))],
                  assigns='__exc, xt_epoch, xt_incs_epoch, xt_last_empty, %s' % FL)
    import os
    if os.environ.get('C01_SOLVE'):   # experimental: DFCC's nested loop-contract instrumentation exhausts memory on this one (see DESIGN §0)
      out.append(Job('solver.solve', 'ratio_solver_solve', unit='solver', tus=TUS, contract=c2, defines=d, unwind=4, model_unwind=12,
                   callee_contracts=stubs2, replace=list(stubs2), exceptions=True, caps={'vector': 2, 'uset_flawp': 2}, abstract_fields=dict(ABS, **{'ratio::solver': ['flaws', 'gr']}), ghost=GHOST0, mem_gb=24,
                   loop_specs={('ratio_solver_solve', 1): LOOPA, ('ratio_solver_solve', 2): LOOPA, ('ratio_solver_solve', 3): LOOPA},
                   skip_asserts=['solver.cpp:80', 'solver.cpp:139', 'solver.cpp:156'], timeout=2400, solver='cadical',
                   bounded='unbounded in the number of iterations of the three search loops (loop contracts); flaw set capacity 2 for the selection of the best flaw'))
    return out


# what the evidence file says is NOT decided by this module, and what it assumes
INFO = {'not_under_contract': ['solver::solve (written, parked: DFCC loop-contract instrumentation exhausts memory)', 'assert_facts, the value accessors, init / read', 'every callee of solve_inconsistencies: replaced by contracts that are ASSUMED here', 'the composition with C07/C10/C12/C13/C14 (paper argument only)'], 'assumptions': ['callee contracts of next / take_decision / record / propagate / graph::check / get_incs: each may change the network (ghost epoch) and get_incs stamps the epoch - assumed, not proved']}
