/* arith_spec.h — mathematical views of rational / inf_rational / lin used by the contracts (DESIGN §4).
 * All arithmetic here is done in WIDE_t (2*I_BITS) so that spec-side products cannot wrap; these are C functions
 * (not inline ensures-arithmetic) so CBMC instruments them with overflow checks like any other code. */
#ifndef ARITH_SPEC_H
#define ARITH_SPEC_H

#ifndef SPEC_W
#define SPEC_W 3
#endif
#define SPEC_LIM ((I_t)1 << SPEC_W)

static inline _Bool sp_is_inf(struct smt_rational r) { return r.den == 0; }
static inline _Bool sp_is_pinf(struct smt_rational r) { return r.den == 0 && r.num > 0; }
static inline _Bool sp_is_ninf(struct smt_rational r) { return r.den == 0 && r.num < 0; }

/* |num| < 2^W, 0 <= den < 2^W */
static inline _Bool in_range(struct smt_rational r) { return r.num > -SPEC_LIM && r.num < SPEC_LIM && r.den >= 0 && r.den < SPEC_LIM; }
static inline _Bool in_range_I(I_t x) { return x > -SPEC_LIM && x < SPEC_LIM; }

/* no common prime factor; complete for |n|,d < 2^SPEC_W2 where SPEC_W2 is the width of *results* (<= 2*SPEC_W+1 bits):
 * checked against all primes below 2^5 when SPEC_W<=2, below 2^7 (=127) for SPEC_W==3, 2^9 for SPEC_W==4 would need more
 * primes than is practical, so reducedness of results is stated through the loop below (unwound; the unwinding assertion
 * makes the bound an obligation). */
static inline _Bool sp_coprime(I_t n, I_t d)
{
  /* d > 0 here */
  I_t a = n < 0 ? (I_t)-n : n, b = d;
  while (b != 0) { I_t t = (I_t)(a % b); a = b; b = t; }
  return a == 1;
}

/* canonical form: reduced, positive denominator; or one of the two infinities +-1/0 */
static inline _Bool wf_rat(struct smt_rational r)
{
  if (r.den == 0) return r.num == 1 || r.num == -1;
  if (r.den < 0) return 0;
  return sp_coprime(r.num, r.den);
}

/* total order  -inf < finite < +inf : returns -1, 0, 1 */
static inline int sp_cmp(struct smt_rational a, struct smt_rational b)
{
  if (a.den == 0 && b.den == 0) return (a.num > 0) == (b.num > 0) ? 0 : (a.num > 0 ? 1 : -1);
  if (a.den == 0) return a.num > 0 ? 1 : -1;
  if (b.den == 0) return b.num > 0 ? -1 : 1;
  WIDE_t l = (WIDE_t)a.num * (WIDE_t)b.den, r = (WIDE_t)b.num * (WIDE_t)a.den;
  return l < r ? -1 : (l > r ? 1 : 0);
}
static inline _Bool sp_rat_identical(struct smt_rational a, struct smt_rational b) { return a.num == b.num && a.den == b.den; }
static inline struct smt_rational sp_of_int(I_t i) { struct smt_rational r; r.num = i; r.den = 1; return r; }

/* same value (finite: cross-multiplication; infinite: same sign) */
static inline _Bool sp_same(struct smt_rational a, struct smt_rational b) { return sp_cmp(a, b) == 0; }

/* res = a + b  (the caller excludes +inf + -inf) */
static inline _Bool rat_is_sum(struct smt_rational res, struct smt_rational a, struct smt_rational b)
{
  if (a.den == 0 || b.den == 0)
  {
    _Bool pos = a.den == 0 ? a.num > 0 : b.num > 0;
    return res.den == 0 && (res.num > 0) == pos;
  }
  if (res.den == 0) return 0;
  WIDE_t lhs = (WIDE_t)res.num * (WIDE_t)a.den * (WIDE_t)b.den;
  WIDE_t rhs = ((WIDE_t)a.num * (WIDE_t)b.den + (WIDE_t)b.num * (WIDE_t)a.den) * (WIDE_t)res.den;
  return lhs == rhs;
}
static inline struct smt_rational sp_neg(struct smt_rational a) { struct smt_rational r; r.num = (I_t)-a.num; r.den = a.den; return r; }
static inline _Bool rat_is_diff(struct smt_rational res, struct smt_rational a, struct smt_rational b) { return rat_is_sum(res, a, sp_neg(b)); }

/* res = a * b   (the caller excludes 0 * inf); sign rule for infinities */
static inline _Bool rat_is_prod(struct smt_rational res, struct smt_rational a, struct smt_rational b)
{
  if (a.den == 0 || b.den == 0)
  {
    _Bool pos = (a.num > 0) == (b.num > 0);
    return res.den == 0 && (res.num > 0) == pos;
  }
  if (res.den == 0) return 0;
  return (WIDE_t)res.num * (WIDE_t)a.den * (WIDE_t)b.den == (WIDE_t)a.num * (WIDE_t)b.num * (WIDE_t)res.den;
}

/* res = a / b with the code's documented conventions: x/inf = 0, x/0 = +-inf by the sign of x (x != 0),
 * inf/finite = inf with the sign rule; 0/0, inf/inf and 0*inf shapes are excluded by the caller */
static inline _Bool rat_is_quot(struct smt_rational res, struct smt_rational a, struct smt_rational b)
{
  if (b.den == 0) return res.den != 0 && res.num == 0;                       /* finite / inf = 0 */
  if (b.num == 0) return res.den == 0 && (res.num > 0) == (a.num > 0);       /* x / 0 = sign(x) inf */
  if (a.den == 0) return res.den == 0 && (res.num > 0) == ((a.num > 0) == (b.num > 0));
  if (res.den == 0) return 0;
  return (WIDE_t)res.num * (WIDE_t)a.den * (WIDE_t)b.num == (WIDE_t)a.num * (WIDE_t)b.den * (WIDE_t)res.den;
}

/* r is the fraction n/d (d != 0), or sign(n)*inf when d == 0 (n != 0) */
static inline _Bool sp_is_frac(struct smt_rational r, I_t n, I_t d)
{
  if (d == 0) return r.den == 0 && (r.num > 0) == (n > 0);
  if (r.den == 0) return 0;
  return (WIDE_t)r.num * (WIDE_t)d == (WIDE_t)n * (WIDE_t)r.den;
}

#endif
