/* infrat_spec.h — view of smt::inf_rational: the pair (rat, inf) standing for rat + inf*epsilon, ordered lexicographically */
#ifndef INFRAT_SPEC_H
#define INFRAT_SPEC_H
#include "arith_spec.h"

static inline _Bool in_range_inf(struct smt_inf_rational x) { return in_range(x.rat) && in_range(x.inf); }
/* both components canonical, infinitesimal coefficient finite */
static inline _Bool wf_inf(struct smt_inf_rational x) { return wf_rat(x.rat) && wf_rat(x.inf) && !sp_is_inf(x.inf); }
static inline int sp_cmp_inf(struct smt_inf_rational a, struct smt_inf_rational b)
{
  int c = sp_cmp(a.rat, b.rat);
  return c != 0 ? c : sp_cmp(a.inf, b.inf);
}
static inline struct smt_inf_rational sp_inf_of_rat(struct smt_rational r) { struct smt_inf_rational x; x.rat = r; x.inf = sp_of_int(0); return x; }
static inline struct smt_inf_rational sp_inf_of_int(I_t i) { return sp_inf_of_rat(sp_of_int(i)); }
/* res.inf * a^2 == -(c * b)   for  c / (a + b eps), first-order term; a finite non-zero, everything finite */
static inline _Bool sp_is_recip_inf_part(struct smt_rational res, struct smt_rational c, struct smt_rational a, struct smt_rational b)
{
  if (res.den == 0) return 0;
  WIDE_t lhs = (WIDE_t)res.num * (WIDE_t)a.num * (WIDE_t)a.num * (WIDE_t)c.den * (WIDE_t)b.den;
  WIDE_t rhs = -((WIDE_t)c.num * (WIDE_t)b.num * (WIDE_t)a.den * (WIDE_t)a.den * (WIDE_t)res.den);
  return lhs == rhs;
}
#endif
