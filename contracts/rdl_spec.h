/* rdl_spec.h — the expression queries of rdl_theory against the variable-level distances (DESIGN §5/C12); uses dl_spec.h and
 * infrat_spec.h.  The distance matrix holds inf_rationals (rat + inf*eps); "no constraint" is rat = +inf. */
#ifndef RDL_SPEC_H
#define RDL_SPEC_H
#include "lin_spec.h"
#include "infrat_spec.h"
#ifndef XT_NTP
#define XT_NTP 3
#endif
static inline _Bool spr_lin_keys_ok(struct smt_lin l)
{
  for (U_t i = 0; i < LIN_MAX; i++) if (i < l.vars.n && l.vars.e[i].first >= XT_NTP) return 0;
  return 1;
}
/* res == a * c + k   for finite c != 0 and finite k; an infinite a stays infinite with the sign of c */
static inline _Bool spr_affine(struct smt_rational res, struct smt_rational a, struct smt_rational c, struct smt_rational k)
{
  if (a.den == 0) return res.den == 0 && (res.num > 0) == ((a.num > 0) == (c.num > 0));
  if (res.den == 0) return 0;
  WIDE_t lhs = (WIDE_t)res.num * (WIDE_t)a.den * (WIDE_t)c.den * (WIDE_t)k.den;
  WIDE_t rhs = ((WIDE_t)a.num * (WIDE_t)c.num * (WIDE_t)k.den + (WIDE_t)k.num * (WIDE_t)a.den * (WIDE_t)c.den) * (WIDE_t)res.den;
  return lhs == rhs;
}
/* res == a * c + k on inf_rationals (k has no infinitesimal part); nothing is said about the infinitesimal part of an infinite value */
static inline _Bool spr_inf_affine(struct smt_inf_rational res, struct smt_inf_rational a, struct smt_rational c, struct smt_rational k)
{
  if (!spr_affine(res.rat, a.rat, c, k)) return 0;
  if (a.rat.den == 0) return 1;
  return spr_affine(res.inf, a.inf, c, sp_of_int(0));
}
static inline struct smt_inf_rational spr_neg(struct smt_inf_rational a) { a.rat = sp_neg(a.rat); a.inf = sp_neg(a.inf); return a; }
static inline _Bool spr_D_ok(struct vec_vec_inf_rational D)
{
  if (D.n != XT_NTP) return 0;
  for (U_t i = 0; i < XT_NTP; i++)
  {
    if (D.e[i].n != XT_NTP) return 0;
    for (U_t j = 0; j < XT_NTP; j++)
    {
      struct smt_inf_rational d = D.e[i].e[j];
      if (!wf_inf(d) || !in_range_inf(d) || sp_is_ninf(d.rat)) return 0;
      if (i == j && !(d.rat.num == 0 && d.rat.den == 1 && d.inf.num == 0)) return 0;
    }
  }
  return 1;
}
/* what bounds(l) must return: shape 0 = constant, 1 = c*x + k, 2 = c*(x - y) + k, 3 = not a difference expression */
struct spr_form { int shape; U_t x; U_t y; struct smt_rational c; };
static inline struct spr_form spr_form_of(struct smt_lin l)
{
  struct spr_form f; f.shape = 0; f.x = 0; f.y = 0; f.c = sp_of_int(0);
  U_t n = 0;
  struct smt_rational cy = sp_of_int(0);
  for (U_t t = 0; t < XT_NTP; t++)
  {
    struct smt_rational c = sp_coeff(l, t);
    if (c.num != 0) { if (n == 0) { f.x = t; f.c = c; } else { f.y = t; cy = c; } n++; }
  }
  if (n == 0) f.shape = 0;
  else if (n == 1) f.shape = 1;
  else if (n == 2 && sp_cmp(cy, sp_neg(f.c)) == 0) f.shape = 2;
  else f.shape = 3;
  return f;
}
/* lo / hi of the variable-level range the form scales: x in [-D[x][0], D[0][x]],  x - y in [-D[x][y], D[y][x]] */
static inline _Bool spr_bounds_agree(struct vec_vec_inf_rational D, struct smt_lin l, struct smt_inf_rational lb, struct smt_inf_rational ub)
{
  struct spr_form f = spr_form_of(l);
  if (f.shape == 3) return 1;
  if (f.shape == 0) return sp_cmp(lb.rat, l.known_term) == 0 && sp_cmp(ub.rat, l.known_term) == 0 && lb.inf.num == 0 && ub.inf.num == 0;
  struct smt_inf_rational rlo = f.shape == 1 ? spr_neg(D.e[f.x].e[0]) : spr_neg(D.e[f.x].e[f.y]);
  struct smt_inf_rational rhi = f.shape == 1 ? D.e[0].e[f.x] : D.e[f.y].e[f.x];
  if (f.c.num > 0) return spr_inf_affine(lb, rlo, f.c, l.known_term) && spr_inf_affine(ub, rhi, f.c, l.known_term);
  return spr_inf_affine(lb, rhi, f.c, l.known_term) && spr_inf_affine(ub, rlo, f.c, l.known_term);
}
static inline _Bool spr_rec(struct vec_vec_inf_rational D)
{
  for (U_t i = 0; i < XT_NTP; i++)
    for (U_t j = 0; j < XT_NTP; j++)
    {
      int b = 300 + 4 * (int)(i * XT_NTP + j);
      xt_rec(b, D.e[i].e[j].rat.num); xt_rec(b + 1, D.e[i].e[j].rat.den); xt_rec(b + 2, D.e[i].e[j].inf.num); xt_rec(b + 3, D.e[i].e[j].inf.den);
    }
  return 1;
}
static inline struct smt_lin sp_lin_neg(struct smt_lin l)
{
  for (U_t i = 0; i < LIN_MAX; i++) if (i < l.vars.n) l.vars.e[i].second.num = (I_t)-l.vars.e[i].second.num;
  l.known_term.num = (I_t)-l.known_term.num;
  return l;
}
/* equates(l, 0): true iff 0 lies in [lo, hi] of l, with lo/hi the scaled variable-level range (compared as inf_rationals:
 * lo <= 0 means rat < 0, or rat == 0 and inf <= 0) */
static inline _Bool spr_le0(struct smt_inf_rational a) { return a.rat.num < 0 || (a.rat.num == 0 && a.rat.den != 0 && a.inf.num <= 0); }
static inline _Bool spr_ge0(struct smt_inf_rational a) { return a.rat.num > 0 || (a.rat.num == 0 && a.rat.den != 0 && a.inf.num >= 0); }
/* the result r is what some [lo, hi] satisfying the bounds statement gives: checked through the two scaled ends directly */
static inline _Bool spr_equates_ok(struct vec_vec_inf_rational D, struct smt_lin l, _Bool r)
{
  struct spr_form f = spr_form_of(l);
  if (f.shape == 3) return 1;
  if (f.shape == 0) return r == (l.known_term.num == 0);
  struct smt_inf_rational rlo = f.shape == 1 ? spr_neg(D.e[f.x].e[0]) : spr_neg(D.e[f.x].e[f.y]);
  struct smt_inf_rational rhi = f.shape == 1 ? D.e[0].e[f.x] : D.e[f.y].e[f.x];
  /* sign of  b * c + k  relative to 0, for the end b of the range that becomes the lower / upper bound */
  struct smt_inf_rational lo_src = f.c.num > 0 ? rlo : rhi, hi_src = f.c.num > 0 ? rhi : rlo;
  /* lo <= 0 ?  lo = lo_src * c + k */
  _Bool lo_le0, hi_ge0;
  if (lo_src.rat.den == 0) lo_le0 = ((lo_src.rat.num > 0) == (f.c.num > 0)) ? 0 : 1;
  else
  {
    WIDE_t n = (WIDE_t)lo_src.rat.num * (WIDE_t)f.c.num * (WIDE_t)l.known_term.den + (WIDE_t)l.known_term.num * (WIDE_t)lo_src.rat.den * (WIDE_t)f.c.den;   /* sign of the rational part (denominators > 0) */
    WIDE_t e = (WIDE_t)lo_src.inf.num * (WIDE_t)f.c.num;
    lo_le0 = n < 0 || (n == 0 && e <= 0);
  }
  if (hi_src.rat.den == 0) hi_ge0 = ((hi_src.rat.num > 0) == (f.c.num > 0)) ? 1 : 0;
  else
  {
    WIDE_t n = (WIDE_t)hi_src.rat.num * (WIDE_t)f.c.num * (WIDE_t)l.known_term.den + (WIDE_t)l.known_term.num * (WIDE_t)hi_src.rat.den * (WIDE_t)f.c.den;
    WIDE_t e = (WIDE_t)hi_src.inf.num * (WIDE_t)f.c.num;
    hi_ge0 = n > 0 || (n == 0 && e >= 0);
  }
  return r == (lo_le0 && hi_ge0);
}
#endif
