/* dl_apsp_spec.h — the all-pairs-shortest-paths view of idl_theory's distance matrix (DESIGN §5/C10) */
#ifndef DL_APSP_SPEC_H
#define DL_APSP_SPEC_H
#ifndef XT_N
#define XT_N 3
#endif
#define XT_INF ((I_t)(CM_I_MAX / 2 - 1))
#ifndef XT_R
#define XT_R 8
#endif

static inline _Bool spa_shape(struct vec_vec_I D, struct vec_vec_U P)
{
  if (D.n != XT_N || P.n != XT_N) return 0;
  for (U_t i = 0; i < XT_N; i++) if (D.e[i].n != XT_N || P.e[i].n != XT_N) return 0;
  return 1;
}
/* every entry is the sentinel or a small finite weight; the diagonal is 0 */
static inline _Bool spa_range(struct vec_vec_I D)
{
  for (U_t i = 0; i < XT_N; i++)
    for (U_t j = 0; j < XT_N; j++)
    {
      I_t d = D.e[i].e[j];
      if (i == j ? d != 0 : !(d == XT_INF || (d >= -XT_R && d <= XT_R))) return 0;
    }
  return 1;
}
/* D is closed under composition: the triangle inequality through every finite pair (=> it is its own shortest-path closure) */
static inline _Bool spa_closed(struct vec_vec_I D)
{
  for (U_t i = 0; i < XT_N; i++)
    for (U_t j = 0; j < XT_N; j++)
      for (U_t k = 0; k < XT_N; k++)
        if (D.e[i].e[k] != XT_INF && D.e[k].e[j] != XT_INF && (D.e[i].e[j] == XT_INF || (WIDE_t)D.e[i].e[j] > (WIDE_t)D.e[i].e[k] + (WIDE_t)D.e[k].e[j])) return 0;
  return 1;
}
/* D1 is exactly the closure of D0 plus the edge from --dist--> to:  D1[i][j] = min(D0[i][j], D0[i][from] + dist + D0[to][j]) */
static inline _Bool spa_is_closure_step(struct vec_vec_I D0, struct vec_vec_I D1, U_t from, U_t to, I_t dist)
{
  for (U_t i = 0; i < XT_N; i++)
    for (U_t j = 0; j < XT_N; j++)
    {
      WIDE_t best = (WIDE_t)D0.e[i].e[j];     /* XT_INF stands for "no path" and is larger than every finite path here */
      if (D0.e[i].e[from] != XT_INF && D0.e[to].e[j] != XT_INF)
      {
        WIDE_t via = (WIDE_t)D0.e[i].e[from] + (WIDE_t)dist + (WIDE_t)D0.e[to].e[j];
        if (via < best) best = via;
      }
      if ((WIDE_t)D1.e[i].e[j] != best) return 0;
    }
  return 1;
}
/* ghost: the direct edge weights E (the tightest asserted constraint per ordered pair; XT_INF = none).
 * Predecessor invariant: for i != j with a finite distance, k = P[i][j] is the last hop of a shortest path:
 *   D[i][j] == D[i][k] + E[k][j]   (so walking P from j back reaches i and the walked edges sum to D[i][j]),
 * and no distance exceeds a direct edge. */
struct vec_vec_I xt_E;
static inline _Bool spa_E_shape(struct vec_vec_I E)
{
  if (E.n != XT_N) return 0;
  for (U_t i = 0; i < XT_N; i++)
  {
    if (E.e[i].n != XT_N) return 0;
    for (U_t j = 0; j < XT_N; j++) if (!(E.e[i].e[j] == XT_INF || (i != j && E.e[i].e[j] >= -XT_R && E.e[i].e[j] <= XT_R))) return 0;   /* no self edges */
  }
  return 1;
}
static inline _Bool spa_edges_respected(struct vec_vec_I D, struct vec_vec_I E)
{
  for (U_t i = 0; i < XT_N; i++)
    for (U_t j = 0; j < XT_N; j++)
      if (i != j && E.e[i].e[j] != XT_INF && (D.e[i].e[j] == XT_INF || D.e[i].e[j] > E.e[i].e[j])) return 0;
  return 1;
}
static inline _Bool spa_pred_ok(struct vec_vec_I D, struct vec_vec_U P, struct vec_vec_I E)
{
  for (U_t i = 0; i < XT_N; i++)
    for (U_t j = 0; j < XT_N; j++)
      if (i != j && D.e[i].e[j] != XT_INF)
      {
        U_t k = P.e[i].e[j];
        if (k >= XT_N || k == j) return 0;
        if (E.e[k].e[j] == XT_INF || D.e[i].e[k] == XT_INF) return 0;
        if ((WIDE_t)D.e[i].e[j] != (WIDE_t)D.e[i].e[k] + (WIDE_t)E.e[k].e[j]) return 0;
      }
  return 1;
}
/* E with the entry [from][to] replaced by dist */
static inline struct vec_vec_I spa_E_with(struct vec_vec_I E, U_t from, U_t to, I_t dist)
{
  for (U_t i = 0; i < XT_N; i++)
    for (U_t j = 0; j < XT_N; j++)
      if (i == from && j == to) E.e[i].e[j] = dist;
  return E;
}
static inline _Bool spa_rec(struct vec_vec_I D, struct vec_vec_U P, struct vec_vec_I E, U_t from, U_t to, I_t dist)
{
  xt_recu(1, (unsigned long)from); xt_recu(2, (unsigned long)to); xt_rec(3, dist);
  for (U_t i = 0; i < XT_N; i++)
    for (U_t j = 0; j < XT_N; j++)
    { xt_rec(100 + (int)(i * XT_N + j), D.e[i].e[j]); xt_recu(200 + (int)(i * XT_N + j), (unsigned long)P.e[i].e[j]); xt_rec(300 + (int)(i * XT_N + j), E.e[i].e[j]); }
  return 1;
}
static inline _Bool spa_D_eq_except(struct vec_vec_I a, struct vec_vec_I b, U_t fi, U_t fj, I_t val)
{
  if (b.n != a.n) return 0;
  for (U_t i = 0; i < XT_N; i++)
  {
    if (b.e[i].n != a.e[i].n) return 0;
    for (U_t j = 0; j < XT_N; j++)
      if (b.e[i].e[j] != ((i == fi && j == fj) ? val : a.e[i].e[j])) return 0;
  }
  return 1;
}
static inline _Bool spa_P_eq_except(struct vec_vec_U a, struct vec_vec_U b, U_t fi, U_t fj, U_t val)
{
  if (b.n != a.n) return 0;
  for (U_t i = 0; i < XT_N; i++)
  {
    if (b.e[i].n != a.e[i].n) return 0;
    for (U_t j = 0; j < XT_N; j++)
      if (b.e[i].e[j] != ((i == fi && j == fj) ? val : a.e[i].e[j])) return 0;
  }
  return 1;
}
/* walking the predecessors of row i back from j reaches i within XT_N - 1 hops (the predecessor rows are trees) */
static inline _Bool spa_walk_ok(struct vec_vec_U P, U_t i, U_t j)
{
  U_t c = j;
  for (U_t s = 0; s < XT_N; s++)
  {
    if (c == i) return 1;
    if (c >= XT_N) return 0;
    c = P.e[i].e[c];
  }
  return 0;
}
static inline _Bool spa_D_same(struct vec_vec_I a, struct vec_vec_I b) { return spa_D_eq_except(a, b, XT_N, XT_N, 0); }
static inline _Bool spa_P_same(struct vec_vec_U a, struct vec_vec_U b) { return spa_P_eq_except(a, b, XT_N, XT_N, 0); }
/* ---- hop counts (ghost xt_H): H[i][j] = number of edges of the shortest path that the predecessors of row i spell out to j.
 * hops_ok:  P[i][j] == i  <=>  H[i][j] == 1,  otherwise H[i][j] == H[i][P[i][j]] + 1 and that prefix is finite.
 * It makes the predecessor rows trees: the walk back from j has strictly decreasing hop counts, visits pairwise different
 * time points and therefore reaches i within XT_N - 1 hops (lemma job idl.hops_imply_walks). */
struct vec_vec_U xt_H;
static inline _Bool spa_hops_ok(struct vec_vec_I D, struct vec_vec_U P, struct vec_vec_U H)
{
  if (H.n != XT_N) return 0;
  for (U_t i = 0; i < XT_N; i++)
  {
    if (H.e[i].n != XT_N) return 0;
    for (U_t j = 0; j < XT_N; j++)
      if (i != j && D.e[i].e[j] != XT_INF)
      {
        U_t k = P.e[i].e[j];
        if (k >= XT_N || k == j || H.e[i].e[j] < 1) return 0;
        if (k == i) { if (H.e[i].e[j] != 1) return 0; }
        else if (D.e[i].e[k] == XT_INF || (WIDE_t)H.e[i].e[j] != (WIDE_t)H.e[i].e[k] + 1) return 0;
      }
  }
  return 1;
}
/* the hop counts after the edge step from --dist--> to: an improved pair goes i ~> from -> to ~> j, the others keep theirs */
static inline struct vec_vec_U spa_H_step(struct vec_vec_I D0, struct vec_vec_I D1, struct vec_vec_U H, U_t from, U_t to)
{
  struct vec_vec_U R = H;
  for (U_t i = 0; i < XT_N; i++)
    for (U_t j = 0; j < XT_N; j++)
      if (i != j && D1.e[i].e[j] != D0.e[i].e[j])
        R.e[i].e[j] = (U_t)((i == from ? 0 : H.e[i].e[from]) + 1 + (to == j ? 0 : H.e[to].e[j]));
  return R;
}
static inline _Bool spa_all_walks_ok(struct vec_vec_I D, struct vec_vec_U P)
{
  for (U_t i = 0; i < XT_N; i++)
    for (U_t j = 0; j < XT_N; j++)
      if (i != j && D.e[i].e[j] != XT_INF && !spa_walk_ok(P, i, j)) return 0;
  return 1;
}
#endif
