/* clause_spec.h — views for clause::propagate / get_reason / simplify (DESIGN §5/C07); uses sat_spec.h */
#ifndef CLAUSE_SPEC_H
#define CLAUSE_SPEC_H
#ifndef XT_NV
#define XT_NV 4
#endif
#define XT_NW (2 * XT_NV)

/* literals over existing variables, pairwise on different variables */
static inline _Bool spc_lits_wf(struct vec_lit ls, U_t lo, U_t hi)
{
  if (ls.n < lo || ls.n > hi) return 0;
  for (U_t i = 0; i < XT_MAXLITS; i++)
    if (i < ls.n)
    {
      if (sp_var(ls.e[i]) >= XT_NV) return 0;
      for (U_t j = 0; j < XT_MAXLITS; j++) if (j < i && sp_var(ls.e[j]) == sp_var(ls.e[i])) return 0;
    }
  return 1;
}
/* b is a permutation of a (both have pairwise different variables, so: same length and every literal of a occurs in b) */
static inline _Bool spc_perm(struct vec_lit a, struct vec_lit b)
{
  if (a.n != b.n) return 0;
  for (U_t i = 0; i < XT_MAXLITS; i++)
    if (i < a.n)
    {
      _Bool found = 0;
      for (U_t j = 0; j < XT_MAXLITS; j++) if (j < b.n && b.e[j].x == a.e[i].x) found = 1;
      if (!found) return 0;
    }
  return 1;
}
static inline _Bool spc_all_false(struct vec_us A, struct vec_lit ls, U_t from)
{
  for (U_t i = 0; i < XT_MAXLITS; i++) if (i >= from && i < ls.n && sp_val(A, ls.e[i]) != SP_FALSE) return 0;
  return 1;
}
static inline _Bool spc_watches_shape(struct vec_vec_constrp w)
{
  if (w.n != XT_NW) return 0;
  for (U_t i = 0; i < XT_NW; i++) if (w.e[i].n > 1) return 0;
  return 1;
}
/* w1 is w0 with `c` appended to the list of literal index k; every other list is unchanged */
static inline _Bool spc_watch_added(struct vec_vec_constrp w0, struct vec_vec_constrp w1, U_t k, struct smt_constr *c)
{
  if (w1.n != w0.n) return 0;
  for (U_t i = 0; i < XT_NW; i++)
  {
    if (i == k)
    {
      if (w1.e[i].n != w0.e[i].n + 1 || w1.e[i].e[w0.e[i].n] != c) return 0;
      for (U_t j = 0; j < 2; j++) if (j < w0.e[i].n && w1.e[i].e[j] != w0.e[i].e[j]) return 0;
    }
    else
    {
      if (w1.e[i].n != w0.e[i].n) return 0;
      for (U_t j = 0; j < 2; j++) if (j < w0.e[i].n && w1.e[i].e[j] != w0.e[i].e[j]) return 0;
    }
  }
  return 1;
}
/* enqueue(p, c): already decided -> returns whether it is true, nothing changes; undecided -> becomes true */
static inline _Bool spc_enqueue_post(struct vec_us A0, struct vec_us A1, struct smt_lit p, _Bool ret)
{
  int v = sp_val(A0, p);
  if (v != SP_UNDEF) return ret == (v == SP_TRUE) && sp_assigns_same(A0, A1);
  return ret && sp_assigns_upd(A0, A1, sp_var(p), sp_sign(p) ? SP_TRUE : SP_FALSE);
}
/* out is exactly the negations of lits[from..], in order */
static inline _Bool spc_reason_is(struct vec_lit out, struct vec_lit lits, U_t from)
{
  if (out.n != lits.n - from) return 0;
  for (U_t i = 0; i < XT_MAXLITS; i++)
    if (i < out.n && out.e[i].x != (lits.e[i + from].x ^ 1)) return 0;
  return 1;
}
static inline _Bool spc_any_true(struct vec_us A, struct vec_lit ls)
{
  for (U_t i = 0; i < XT_MAXLITS; i++) if (i < ls.n && sp_val(A, ls.e[i]) == SP_TRUE) return 1;
  return 0;
}
/* out is lits with exactly the undecided literals kept, in order */
static inline _Bool spc_is_filter_undef(struct vec_us A, struct vec_lit lits, struct vec_lit out)
{
  U_t k = 0;
  for (U_t i = 0; i < XT_MAXLITS; i++)
    if (i < lits.n && sp_val(A, lits.e[i]) == SP_UNDEF)
    {
      if (k >= out.n || out.e[k].x != lits.e[i].x) return 0;
      k++;
    }
  return k == out.n;
}
/* the whole postcondition of clause::propagate(p) in one pass */
static inline _Bool spc_propagate_post(struct vec_us A0, struct vec_us A1, struct vec_lit L0, struct vec_lit L1, struct smt_lit p, _Bool ret)
{
  if (!spc_perm(L0, L1)) return 0;
  if (!ret) return spc_all_false(A0, L1, 0) && sp_assigns_same(A0, A1);                   /* conflict: every literal is false */
  if (sp_val(A0, L1.e[0]) == SP_TRUE) return sp_assigns_same(A0, A1);                      /* already satisfied */
  if (sp_val(A0, L1.e[1]) != SP_FALSE) return sp_assigns_same(A0, A1);                     /* re-watched on a non-false literal */
  /* unit: only now may a literal be enqueued, and only the one the clause forces */
  return sp_val(A0, L1.e[0]) == SP_UNDEF && spc_all_false(A0, L1, 1) &&
         sp_assigns_upd(A0, A1, sp_var(L1.e[0]), sp_sign(L1.e[0]) ? SP_TRUE : SP_FALSE);
}
#endif
