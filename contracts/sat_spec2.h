/* sat_spec2.h — the expression cache (exprs) view; needs the emitted container instantiations (umap_str_lit) */
#ifndef SAT_SPEC2_H
#define SAT_SPEC2_H
/* spec-side string helpers: contract clauses must not call functions that the program also calls (DFCC instruments
 * those with an extra write-set parameter), so the spec has its own copies */
static inline _Bool sps_eq(struct cm_string a, struct cm_string b)
{
  if (a.n != b.n) return 0;
  for (U_t i = 0; i < CM_STR_CAP; i++) if (i < a.n && a.t[i] != b.t[i]) return 0;
  return 1;
}
static inline _Bool sps_lt(struct cm_string a, struct cm_string b)
{
  for (U_t i = 0; i < CM_STR_CAP; i++)
    if (i < a.n && i < b.n) { if (a.t[i] < b.t[i]) return 1; if (a.t[i] > b.t[i]) return 0; }
  return a.n < b.n;
}
static inline struct cm_string sps_lit(cm_tok t) { struct cm_string s; s.n = 1; s.t[0] = t; return s; }
static inline struct cm_string sps_app(struct cm_string a, cm_tok t) { if (a.n < CM_STR_CAP) { a.t[a.n] = t; a.n = a.n + 1; } return a; }
static inline _Bool sp_exprs_eq(struct umap_str_lit a, struct umap_str_lit b)
{
  if (a.n != b.n) return 0;
  for (U_t i = 0; i < XT_EXPRS_CAP; i++)
    if (i < a.n && (!sps_eq(a.e[i].first, b.e[i].first) || a.e[i].second.x != b.e[i].second.x)) return 0;
  return 1;
}
/* after == before with (key -> l) emplaced (no change if the key was present) */
static inline _Bool sp_exprs_emplaced(struct umap_str_lit before, struct umap_str_lit after, struct cm_string key, struct smt_lit l)
{
  U_t p = 0;
  _Bool present = 0;
  for (U_t i = 0; i < XT_EXPRS_CAP; i++)
    if (i < before.n) { if (sps_lt(before.e[i].first, key)) p++; if (sps_eq(before.e[i].first, key)) present = 1; }
  if (present) return sp_exprs_eq(before, after);
  if (after.n != before.n + 1) return 0;
  for (U_t i = 0; i < XT_EXPRS_CAP; i++)
    if (i < after.n)
    {
      if (i < p && !(sps_eq(after.e[i].first, before.e[i].first) && after.e[i].second.x == before.e[i].second.x)) return 0;
      if (i == p && !(sps_eq(after.e[i].first, key) && after.e[i].second.x == l.x)) return 0;
      if (i > p && !(sps_eq(after.e[i].first, before.e[i - 1].first) && after.e[i].second.x == before.e[i - 1].second.x)) return 0;
    }
  return 1;
}
static inline struct cm_string sp_key_var(U_t id) { return sps_app(sps_lit(XT_TOK_b), CM_TOK_NUM | (unsigned long)id); }
/* no cached reified expression yet: every key is of another kind (e.g. the per-variable "b<id>" entries) */
static inline _Bool sp_exprs_no_reified(struct umap_str_lit m, U_t maxn)
{
  if (m.n > maxn) return 0;
  for (U_t i = 0; i < XT_EXPRS_CAP; i++)
    if (i < m.n)
    {
      if (m.e[i].first.n < 1 || m.e[i].first.n > 2) return 0;
      cm_tok k = m.e[i].first.t[0];
      if (k == XT_TOK_eq || k == XT_TOK_and || k == XT_TOK_or || k == XT_TOK_amo || k == XT_TOK_xor) return 0;
      if (i + 1 < m.n && !sps_lt(m.e[i].first, m.e[i + 1].first)) return 0;
    }
  return 1;
}
/* the cache may hold reified expressions, but none that mentions a variable of the arguments: the request cannot hit the
 * cache (what happens on a hit is the business of the two-request lemma jobs).  Keys strictly increasing, at most maxn. */
static inline _Bool sp_key_is_reified(struct cm_string k)
{
  if (k.n < 1) return 0;
  cm_tok t = k.t[0];
  return t == XT_TOK_eq || t == XT_TOK_and || t == XT_TOK_or || t == XT_TOK_amo || t == XT_TOK_xor;
}
static inline _Bool sp_key_mentions(struct cm_string k, U_t v)
{
  for (U_t i = 0; i < CM_STR_CAP; i++) if (i < k.n && k.t[i] == (CM_TOK_NUM | (cm_tok)v)) return 1;
  return 0;
}
static inline _Bool sp_exprs_shape(struct umap_str_lit m, U_t maxn)
{
  if (m.n > maxn) return 0;
  for (U_t i = 0; i < XT_EXPRS_CAP; i++)
    if (i < m.n)
    {
      if (m.e[i].first.n < 1 || m.e[i].first.n > CM_STR_CAP) return 0;
      if (!sp_key_is_reified(m.e[i].first) && m.e[i].first.n > 2) return 0;
      if (i + 1 < m.n && !sps_lt(m.e[i].first, m.e[i + 1].first)) return 0;
    }
  return 1;
}
static inline _Bool sp_exprs_fresh_for_lits(struct umap_str_lit m, U_t maxn, struct vec_lit ls)
{
  if (!sp_exprs_shape(m, maxn)) return 0;
  for (U_t i = 0; i < XT_EXPRS_CAP; i++)
    if (i < m.n && sp_key_is_reified(m.e[i].first))
      for (U_t j = 0; j < XT_MAXLITS; j++)
        if (j < ls.n && sp_key_mentions(m.e[i].first, sp_var(ls.e[j]))) return 0;
  return 1;
}
static inline _Bool sp_exprs_fresh_for_2(struct umap_str_lit m, U_t maxn, struct smt_lit a, struct smt_lit b)
{
  if (!sp_exprs_shape(m, maxn)) return 0;
  for (U_t i = 0; i < XT_EXPRS_CAP; i++)
    if (i < m.n && sp_key_is_reified(m.e[i].first) && (sp_key_mentions(m.e[i].first, sp_var(a)) || sp_key_mentions(m.e[i].first, sp_var(b)))) return 0;
  return 1;
}
#endif
