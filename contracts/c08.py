"""C08 — undoing decisions restores the network exactly (DESIGN §5/C08): the inductive undo-log invariant.

push establishes Undo(layer, cur, snap) with snap := cur; every mutator preserves it (the value logged on the first write
of an index in a level is the value BEFORE the write); pop consumes it (cur == snap afterwards).  One symbolic level is
proved; lower levels are untouched by the frame, so nesting to any depth and histories of any length follow by induction."""
from vlib.engine import Contract, Job, Known

TUS = ['smt/arith/dl/idl_theory.cpp']
SPEC = ['dl_undo_spec.h']
R = '__CPROVER_return_value'
ABS = {'smt::sat_core': [], 'smt::theory': ['sat'], 'smt::idl_theory': ['_dists', '_preds', 'layers', 'listening', 'dist_constr'],
       'smt::idl_theory::idl_distance': ['b', 'from', 'to', 'dist'], 'smt::idl_value_listener': []}
def caps(N):
    return {'vec_vec_I': N, 'vec_I': N, 'vec_vec_U': N, 'vec_U': N, 'vec_layer': 2, 'map_pair_U_U_I': N * N, 'map_pair_U_U_U': N * N,
            'map_pair_U_U_idl_distancep': N * N, 'umap_U_set_idl_value_listenerp': 1, 'set_idl_value_listenerp': 1}
FORCE = ['std::vector<std::vector<long>>', 'std::vector<std::vector<unsigned long>>', 'std::map<std::pair<unsigned long, unsigned long>, smt::idl_theory::idl_distance *>']
FRESH = '__CPROVER_is_fresh(self, sizeof(*self))'
HPRE = '''  { struct vec_vec_I sd; xt_snapD = sd; struct vec_vec_U sp; xt_snapP = sp; struct map_pair_U_U_idl_distancep sc; xt_snapC = sc; }'''
L0 = 'self->layers.e[0]'
OLD = lambda e: '__CPROVER_old(%s)' % e


def jobs(tier):
    out = []
    N = 2 if tier == 'quick' else 3
    CAPS = caps(N)
    d = {'U_BITS': 16, 'I_BITS': 16, 'XT_N': N}

    LST = 'smt_idl_value_listener_idl_value_change__U'
    C_LST = Contract(requires=['1'], ensures=['1'], assigns='')   # assumption: value listeners do not touch the theory's state

    def J(name, target, contract, n=None, **kw):
        n = n or N
        out.append(Job('idl.' + name, target, tus=TUS, contract=contract, defines=dict(d, XT_N=n), callee_contracts={LST: C_LST}, replace=[LST], unwind=n * n + 2, model_unwind=n * n + 2, spec_headers=SPEC,
                       exceptions=True, caps=caps(n), abstract_fields=ABS, harness_pre=HPRE, force_types=FORCE, timeout=2400, mem_gb=24, mem_est=4,
                       bounded='%d time points (matrix %dx%d), one symbolic open level (depth by induction), no value listeners registered' % (n, n, n), **kw))

    base = [FRESH, '__exc == 0', 'spu_inv(self)', 'self->listening.n == 0']
    # set_dist: only D[from][to] changes; the log gets the OLD value the first time the entry is written in this level
    J('set_dist', 'smt_idl_theory_set_dist__U__U__I',
      Contract(requires=base + ['__CPROVER_is_fresh(from, sizeof(*from)) && __CPROVER_is_fresh(to, sizeof(*to)) && __CPROVER_is_fresh(dist, sizeof(*dist))',
                                '*from < XT_N && *to < XT_N', 'self->_dists.e[*from].e[*to] > *dist'],
               ensures=[('noexcept', '__exc == 0'),
                        ('only_the_entry_changes', 'spu_D_eq_except(%s, self->_dists, *from, *to, *dist)' % OLD('self->_dists')),
                        ('undo_invariant_kept', 'spu_inv(self)'),
                        ('depth_unchanged', 'self->layers.n == %s' % OLD('self->layers.n')),
                        ('other_logs_untouched', 'self->layers.n == 0 || (spu_mP_eq(%s.old_preds, %s) && spu_mC_eq(%s.old_constrs, %s))' % (
                            L0, OLD(L0 + '.old_preds'), L0, OLD(L0 + '.old_constrs')))],
               assigns='__exc, self->_dists, self->layers'))
    J('set_pred', 'smt_idl_theory_set_pred__U__U__U',
      Contract(requires=base + ['__CPROVER_is_fresh(from, sizeof(*from)) && __CPROVER_is_fresh(to, sizeof(*to)) && __CPROVER_is_fresh(pred, sizeof(*pred))',
                                '*from < XT_N && *to < XT_N'],
               ensures=[('noexcept', '__exc == 0'),
                        ('only_the_entry_changes', 'spu_P_eq_except(%s, self->_preds, *from, *to, *pred)' % OLD('self->_preds')),
                        ('undo_invariant_kept', 'spu_inv(self)'),
                        ('depth_unchanged', 'self->layers.n == %s' % OLD('self->layers.n')),
                        ('other_logs_untouched', 'self->layers.n == 0 || (spu_mD_eq(%s.old_dists, %s) && spu_mC_eq(%s.old_constrs, %s))' % (
                            L0, OLD(L0 + '.old_dists'), L0, OLD(L0 + '.old_constrs')))],
               assigns='__exc, self->_preds, self->layers'))
    # push: opens an empty level; nothing else changes (so Undo holds for snap := the current state)
    J('push', 'smt_idl_theory_push',
      Contract(requires=[FRESH, '__exc == 0', 'spu_shape_D(self->_dists) && spu_shape_P(self->_preds) && self->layers.n == 0'],
               ensures=[('noexcept', '__exc == 0'),
                        ('opens_empty_level', 'self->layers.n == 1 && %s.old_dists.n == 0 && %s.old_preds.n == 0 && %s.old_constrs.n == 0' % (L0, L0, L0))],
               assigns='__exc, self->layers'))
    # pop: the matrices and the enforced-constraint map are exactly the snapshot again, the level is closed
    J('pop', 'smt_idl_theory_pop',
      Contract(requires=base + ['self->layers.n == 1'],
               ensures=[('noexcept', '__exc == 0'),
                        ('distances_restored', 'spu_D_eq_except(xt_snapD, self->_dists, XT_N, XT_N, 0)'),
                        ('predecessors_restored', 'spu_P_eq_except(xt_snapP, self->_preds, XT_N, XT_N, 0)'),
                        ('enforced_constraints_restored', 'spu_same_C(self->dist_constr, xt_snapC)'),
                        ('level_closed', 'self->layers.n == 0')],
               assigns='__exc, self->_dists, self->_preds, self->dist_constr, self->layers'),
      n=2)   # 2 time points in both tiers: the 3x3 instance of pop ran into the solver timeout (2400 s) in this sandbox
    dl_propagate_jobs(out, tier, 2, dict(d, XT_N=2), caps(2))   # 2 time points in both tiers (the 3x3 instance of the edge step was not run to completion)
    lra_jobs(out, tier)
    sat_jobs(out, tier)
    return out


def dl_propagate_jobs(out, tier, N, d, CAPS):
    """the remaining writers of the logged idl state: propagate(from, to, dist) changes distances/predecessors only through
    set_dist/set_pred (replaced by their contracts above), propagate(const lit&) logs the enforced constraint of the pair
    before replacing it.  Both keep the undo-log invariant."""
    SETD, SETP, PROPE, PROPL = 'smt_idl_theory_set_dist__U__U__I', 'smt_idl_theory_set_pred__U__U__U', 'smt_idl_theory_propagate__U__U__I', 'smt_idl_theory_propagate__lit'
    REC, LST = 'smt_theory_record__vec_lit', 'smt_idl_value_listener_idl_value_change__U'
    ABS2 = {'smt::sat_core': ['assigns'], 'smt::theory': ['sat', 'cnfl'],
            'smt::idl_theory': ['n_vars', '_dists', '_preds', 'dist_constr', 'dist_constrs', 'var_dists', 'layers', 'listening'],
            'smt::idl_theory::idl_distance': ['b', 'from', 'to', 'dist'], 'smt::idl_value_listener': []}
    KEEP = [('undo_invariant_kept', 'spu_inv(self)'), ('depth_unchanged', 'self->layers.n == %s' % OLD('self->layers.n'))]
    c_setd = Contract(requires=['spu_inv(self) && self->listening.n == 0', '*from < XT_N && *to < XT_N', 'self->_dists.e[*from].e[*to] > *dist'],
                      ensures=[('only_the_entry_changes', 'spu_D_eq_except(%s, self->_dists, *from, *to, %s)' % (OLD('self->_dists'), OLD('*dist')))] + KEEP,
                      assigns='self->_dists, self->layers')
    c_setp = Contract(requires=['spu_inv(self)', '*from < XT_N && *to < XT_N'],
                      ensures=[('only_the_entry_changes', 'spu_P_eq_except(%s, self->_preds, *from, *to, %s)' % (OLD('self->_preds'), OLD('*pred')))] + KEEP,
                      assigns='self->_preds, self->layers')
    c_nop = Contract(requires=['1'], ensures=['1'], assigns='')
    d2 = dict(d, I_BITS=8, U_BITS=8, WIDE_BITS=16, XT_R=3, XT_NV=4, XT_MC=2)
    caps2 = dict(CAPS, vec_pair_U_U=2 + 4 * N + 2 * N * N, map_pair_U_U_vec_idl_distancep=1, vec_idl_distancep=1, vec_lit=N + 1, vec_us=4, umap_U_idl_distancep=1)
    EDGE_REQ = ['__exc == 0 && self->n_vars == XT_N && self->listening.n == 0 && self->dist_constrs.n == 0 && self->base_theory.cnfl.n == 0', 'spu_inv(self)',
                'spa_range(self->_dists)', '*from < XT_N && *to < XT_N && *from != *to && *dist >= -XT_R && *dist <= XT_R', 'self->_dists.e[*from].e[*to] > *dist']
    HARN = ('void xt_harness(void)\n{\n  xt_init_globals();\n' + HPRE + '\n  struct smt_idl_theory th; th.dist_constrs.n = 0; th.base_theory.cnfl.n = 0; th.listening.n = 0;\n'
            '  U_t *from; U_t *to; I_t *dist;\n  %s(&th, from, to, dist);\n}\n' % PROPE)
    edge_job = (Job('idl.propagate_edge_keeps_undo_log', PROPE, tus=TUS + ['smt/theory.cpp'],
                   contract=Contract(requires=['__CPROVER_is_fresh(from, sizeof(*from)) && __CPROVER_is_fresh(to, sizeof(*to)) && __CPROVER_is_fresh(dist, sizeof(*dist))'] + EDGE_REQ,
                                     ensures=[('noexcept', '__exc == 0')] + KEEP + [('enforced_constraints_untouched', 'spu_mC_eq(self->dist_constr, %s)' % OLD('self->dist_constr'))],
                                     assigns='__exc, self->_dists, self->_preds, self->layers, self->base_theory.cnfl'),
                   defines=d2, callee_contracts={SETD: c_setd, SETP: c_setp, REC: c_nop, LST: c_nop}, replace=[SETD, SETP, REC, LST], unwind=N + 2, model_unwind=max(2 + 4 * N + 2 * N * N, N * N + 2) + 1,
                   loop_unwind={6: 2 + 4 * N + 2 * N * N + 2}, spec_headers=SPEC + ['dl_apsp_spec.h'], exceptions=True, caps=caps2, abstract_fields=ABS2, harness=HARN, force_types=FORCE,
                   timeout=2400, mem_gb=24, mem_est=6, solver='cadical',
                   bounded='%d time points, weights in [-3, 3], one symbolic open level; no registered undecided constraints (the re-propagation loop is empty)' % N))
    if tier == 'thorough':   # 13 minutes on its own: too long for the check meant to run on every change
        out.append(edge_job)
    DD, SATP = 'self->var_dists.e[0].second', 'self->base_theory.sat'
    F, T, K = '%s->from' % DD, '%s->to' % DD, '%s->dist' % DD
    import os
    DBG = ['spu_shape_D(self->_dists) && spu_shape_P(self->_preds)', 'spu_wf_mC(self->dist_constr)', 'spu_nonnull_C(self->dist_constr)', 'self->layers.n <= 1',
           'self->layers.n == 0 || (spu_wf_mD(self->layers.e[0].old_dists) && spu_wf_mP(self->layers.e[0].old_preds))', 'self->layers.n == 0 || spu_wf_mC(self->layers.e[0].old_constrs)',
           'self->layers.n == 0 || spu_undo_D(self->layers.e[0].old_dists, self->_dists, xt_snapD)', 'self->layers.n == 0 || spu_undo_P(self->layers.e[0].old_preds, self->_preds, xt_snapP)',
           'self->layers.n == 0 || spu_undo_C(self->layers.e[0].old_constrs, self->dist_constr, xt_snapC)'] if os.environ.get('C08_DBG') else []
    c_edge = Contract(requires=DBG + EDGE_REQ, ensures=[('noexcept', '__exc == 0')] + KEEP + [('enforced_constraints_untouched', 'spu_mC_eq(self->dist_constr, %s)' % OLD('self->dist_constr'))],
                      assigns='__exc, self->_dists, self->_preds, self->layers, self->base_theory.cnfl')
    out.append(Job('idl.propagate_lit_keeps_undo_log', PROPL, tus=TUS + ['smt/theory.cpp'],
                   contract=Contract(
                       # is_fresh clauses first: in a requires clause they ASSIGN the pointer, so every predicate reading it must come later
                       requires=['__CPROVER_is_fresh(self, sizeof(*self)) && __CPROVER_is_fresh(p, sizeof(*p)) && __CPROVER_is_fresh(%s, sizeof(*%s))' % (SATP, SATP),
                                 'self->dist_constr.n <= 2',
                                 '(self->dist_constr.n < 1 || (__CPROVER_is_fresh(self->dist_constr.e[0].second, sizeof(*%s)) && (self->dist_constr.e[0].second->b.x >> 1) < XT_NV))' % DD,
                                 '(self->dist_constr.n < 2 || (__CPROVER_is_fresh(self->dist_constr.e[1].second, sizeof(*%s)) && (self->dist_constr.e[1].second->b.x >> 1) < XT_NV))' % DD] + EDGE_REQ[:3] +
                       ['self->var_dists.n == 1 && self->var_dists.e[0].first == (p->x >> 1) && __CPROVER_is_fresh(%s, sizeof(*%s))' % (DD, DD),
                        '%s < XT_N && %s < XT_N && %s != %s && %s >= -XT_R && %s < XT_R && %s->b.x == (U_t)(((p->x >> 1) << 1) + 1)' % (F, T, F, T, K, K, DD),
                        'spl_assigns_wf(%s->assigns) && (p->x >> 1) < XT_NV && (p->x >> 1) >= 1 && spl_value(%s->assigns, *p) == SPL_TRUE' % (SATP, SATP),
                        'spa_hops_ok(self->_dists, self->_preds, xt_H)'],   # predecessor rows are trees (invariant of the edge step, proved under C10): the explanation walks terminate
                       ensures=[('noexcept', '__exc == 0')] + KEEP,
                       assigns='__exc, self->_dists, self->_preds, self->layers, self->base_theory.cnfl, self->dist_constr'),
                   defines=d2, callee_contracts={PROPE: c_edge}, replace=[PROPE], unwind=N + 2, model_unwind=N * N + 3,
                   spec_headers=SPEC + ['dl_apsp_spec.h', 'dl_lit_spec.h'], exceptions=True, caps=caps2, abstract_fields=ABS2, harness_pre=HPRE, force_types=FORCE,
                   timeout=2400, mem_gb=24, mem_est=6, solver='cadical',
                   bounded='%d time points, weights in [-3, 3], one symbolic open level, <= 2 enforced constraints before the call' % N))


def lra_jobs(out, tier):
    TUS_L = ['smt/arith/lra/lra_theory.cpp', 'smt/arith/rational.cpp', '/verif/stubs/tu/inf_rational.cpp']
    ABS_L = {'smt::sat_core': ['assigns'], 'smt::theory': ['sat', 'cnfl'], 'smt::lra_theory': ['c_bounds', 'vals', 'layers', 'a_watches', 't_watches', 'tableau'],
             'smt::assertion': [], 'smt::row': [], 'smt::lra_value_listener': []}
    d = {'U_BITS': 8, 'I_BITS': 8, 'WIDE_BITS': 32, 'SPEC_W': 2, 'XT_NB': 4}
    CAPS_L = {'vec_bound': 4, 'vec_inf_rational': 2, 'umap_U_bound': 4, 'vec_umap_U_bound': 2, 'vec_assertionp': 1, 'vec_vec_assertionp': 2, 'uset_rowp': 1,
              'vec_uset_rowp': 2, 'map_U_rowp': 2, 'vec_lit': 2, 'vec_us': 4}
    stubs = {'smt_lra_theory_update__U__inf_rational': Contract(requires=['1'], ensures=['1'], assigns='self->vals'),
             'smt_assertion_propagate_lb__U': Contract(requires=['1'], ensures=['1'], assigns=''),
             'smt_assertion_propagate_ub__U': Contract(requires=['1'], ensures=['1'], assigns=''),
             'smt_row_propagate_lb__U': Contract(requires=['1'], ensures=['1'], assigns=''),
             'smt_row_propagate_ub__U': Contract(requires=['1'], ensures=['1'], assigns='')}
    HPRE_L = '  { struct vec_bound sb; xt_snapB = sb; }'

    def J(name, target, contract, **kw):
        out.append(Job('lra.' + name, target, tus=TUS_L, contract=contract, defines=d, unwind=6, model_unwind=8, spec_headers=['arith_spec.h', 'lra_undo_spec.h'],
                       callee_contracts=stubs, replace=list(stubs), exceptions=True, caps=CAPS_L, abstract_fields=ABS_L, harness_pre=HPRE_L, timeout=2400, mem_gb=24, mem_est=4,
                       force_types=['std::vector<unsigned short>'],
                       bounded='2 arithmetic variables (4 bounds), one symbolic open level, bound values small canonical rationals with infinitesimal part in -1..1; '
                               'assertion/row::propagate_* and update are abstracted (assumed not to touch the bounds or the undo log)', **kw))

    L0 = 'self->layers.e[0]'
    J('push', 'smt_lra_theory_push',
      Contract(requires=[FRESH, '__exc == 0', 'spl_bounds_ok(self->c_bounds) && self->layers.n == 0'],
               ensures=[('noexcept', '__exc == 0'), ('opens_empty_level', 'self->layers.n == 1 && %s.n == 0' % L0),
                        ('bounds_untouched', 'spl_bounds_same(__CPROVER_old(self->c_bounds), self->c_bounds)')],
               assigns='__exc, self->layers'))
    J('pop', 'smt_lra_theory_pop',
      Contract(requires=[FRESH, '__exc == 0', 'spl_inv(self) && self->layers.n == 1'],
               ensures=[('noexcept', '__exc == 0'), ('bounds_and_reasons_restored', 'spl_bounds_same(xt_snapB, self->c_bounds)'), ('level_closed', 'self->layers.n == 0')],
               assigns='__exc, self->c_bounds, self->layers'))
    for side, idx, other in (('lower', '2 * (*x_i)', 'upper'), ('upper', '2 * (*x_i) + 1', 'lower')):
        J('assert_' + side, 'smt_lra_theory_assert_%s__U__inf_rational__lit' % side,
          Contract(requires=[FRESH + ' && __CPROVER_is_fresh(x_i, sizeof(*x_i)) && __CPROVER_is_fresh(val, sizeof(*val)) && __CPROVER_is_fresh(p, sizeof(*p))',
                             '__CPROVER_is_fresh(self->base_theory.sat, sizeof(*self->base_theory.sat))',
                             '__exc == 0 && *x_i < 2 && spl_val_ok(*val) && !sp_is_inf(val->rat)', 'spl_inv(self)',
                             'self->vals.n == 2 && self->a_watches.n == 2 && self->t_watches.n == 2 && self->base_theory.cnfl.n == 0 && self->tableau.n <= 1',
                             'self->a_watches.e[0].n <= 1 && self->a_watches.e[1].n <= 1 && self->t_watches.e[0].n <= 1 && self->t_watches.e[1].n <= 1',
                             'self->base_theory.sat->assigns.n == 4 && (p->x >> 1) < 4 && self->base_theory.sat->assigns.e[p->x >> 1] <= 1'],
                   ensures=[('noexcept', '__exc == 0'),
                            ('only_this_bound_may_change', 'spl_bounds_same(__CPROVER_old(self->c_bounds), self->c_bounds) || spl_bounds_upd(__CPROVER_old(self->c_bounds), self->c_bounds, %s, spl_mk_bound(*val, *p))' % idx),
                            ('undo_invariant_kept', 'spl_inv(self)'),
                            ('depth_unchanged', 'self->layers.n == __CPROVER_old(self->layers.n)')],
                   assigns='__exc, self->c_bounds, self->layers, self->vals, self->base_theory.cnfl'))


def sat_jobs(out, tier):
    TUS_S = ['smt/sat_core.cpp']
    ABS_S = {'smt::sat_core': ['assigns', 'level', 'reason', 'trail', 'trail_lim', 'prop_q', 'listening', 'decisions', 'theories'], 'smt::constr': [],
             'smt::sat_value_listener': [], 'smt::theory': []}
    d = {'U_BITS': 16, 'XT_NV': 4}
    CAPS_S = {'vec_us': 4, 'vec_U': 4, 'vec_constrp': 4, 'vec_lit': 4, 'umap_U_set_sat_value_listenerp': 1, 'set_sat_value_listenerp': 1, 'vec_theoryp': 2}
    LST = 'smt_sat_value_listener_sat_value_change__U'
    THP = 'smt_theory_pop'
    stubs = {LST: Contract(requires=['1'], ensures=['1'], assigns=''),
             THP: Contract(requires=['1'], ensures=[('counted', 'xt_th_pops == __CPROVER_old(xt_th_pops) + 1')], assigns='xt_th_pops')}
    S = lambda f: '__CPROVER_old(self->%s)' % f

    def J(name, target, contract, **kw):
        out.append(Job('sat.' + name, target, tus=TUS_S, contract=contract, defines=d, unwind=6, model_unwind=6, spec_headers=['sat_undo_spec.h'],
                       callee_contracts=stubs, replace=list(stubs), exceptions=True, caps=CAPS_S, abstract_fields=ABS_S, timeout=2400,
                       force_types=['std::vector<smt::constr *>', 'std::vector<smt::lit>', 'std::vector<unsigned short>', 'std::vector<unsigned long>'],
                       bounded='4 propositional variables, trail <= 4, <= 2 theories; no value listeners registered', **kw))

    UNDONE = 'spt_undone(%s, %s, %s, %s, %%s, self->assigns, self->level, self->reason, self->trail)' % (S('assigns'), S('level'), S('reason'), S('trail'))
    J('pop_one', 'smt_sat_core_pop_one',
      Contract(requires=[FRESH, '__exc == 0', 'spt_inv(self) && self->trail.n >= 1 && self->listening.n == 0'],
               ensures=[('noexcept', '__exc == 0'), ('last_assignment_undone_only', UNDONE % (S('trail.n') + ' - 1'))],
               assigns='__exc, self->assigns, self->level, self->reason, self->trail'))
    J('pop', 'smt_sat_core_pop',
      Contract(requires=[FRESH, '__exc == 0 && xt_th_pops == 0', 'spt_inv(self) && self->listening.n == 0',
                         'self->trail_lim.n >= 1 && self->trail_lim.n <= 3 && self->decisions.n == self->trail_lim.n && self->trail_lim.e[self->trail_lim.n - 1] <= self->trail.n',
                         'self->theories.n <= 2'],
               ensures=[('noexcept', '__exc == 0'),
                        ('exactly_the_last_level_undone', UNDONE % ('%s.e[%s - 1]' % (S('trail_lim'), S('trail_lim.n')))),
                        ('level_closed', 'self->trail_lim.n == %s - 1 && self->decisions.n == %s - 1' % (S('trail_lim.n'), S('decisions.n'))),
                        ('every_theory_popped_once', 'xt_th_pops == self->theories.n')],
               assigns='__exc, xt_th_pops, self->assigns, self->level, self->reason, self->trail, self->trail_lim, self->decisions'))

    # assume(p): the matching 'push' of pop - one level is opened at the current end of the trail, the decision is recorded, every theory is
    # pushed exactly once, and only then the literal is enqueued and propagated (both by contract here)
    THPUSH, ENQ2, PROP2 = 'smt_theory_push', 'smt_sat_core_enqueue__lit__constrp', 'smt_sat_core_propagate'
    stubs3 = {THPUSH: Contract(requires=['1'], ensures=[('counted', 'xt_th_pushes == __CPROVER_old(xt_th_pushes) + 1')], assigns='xt_th_pushes'),
              ENQ2: Contract(requires=['1'], ensures=['1'], assigns='xt_after_push'), PROP2: Contract(requires=['1'], ensures=['1'], assigns='xt_after_push'), LST: stubs[LST]}
    out.append(Job('sat.assume', 'smt_sat_core_assume__lit', tus=TUS_S,
                   contract=Contract(requires=[FRESH + ' && __CPROVER_is_fresh(p, sizeof(*p))', '__exc == 0 && xt_th_pushes == 0', 'self->prop_q.n == 0 && self->trail.n <= 3 && self->trail_lim.n <= 2 && self->decisions.n == self->trail_lim.n && self->theories.n <= 2'],
                                     ensures=[('noexcept', '__exc == 0'),
                                              ('one_level_opened_at_the_end_of_the_trail', 'self->trail_lim.n == %s + 1 && self->trail_lim.e[%s] == %s' % (S('trail_lim.n'), S('trail_lim.n'), S('trail.n'))),
                                              ('decision_recorded', 'self->decisions.n == %s + 1 && self->decisions.e[%s].x == p->x' % (S('decisions.n'), S('decisions.n'))),
                                              ('every_theory_pushed_once', 'xt_th_pushes == self->theories.n')],
                                     assigns='__exc, xt_th_pushes, xt_after_push, self->trail_lim, self->decisions'),
                   defines=d, unwind=6, model_unwind=6, spec_headers=[], ghost='unsigned xt_th_pushes; unsigned xt_after_push;', callee_contracts=stubs3, replace=list(stubs3), exceptions=True, caps=dict(CAPS_S, queue=4),
                   abstract_fields=ABS_S, timeout=1200,
                   force_types=['std::vector<smt::constr *>', 'std::vector<smt::lit>', 'std::vector<unsigned short>', 'std::vector<unsigned long>'],
                   bounded='<= 2 open levels, <= 2 theories; enqueue and propagate by (empty) contracts'))
    # check(lits): the trial assumptions are all undone - the decision level on return is the one found on entry when the literals
    # are compatible (true), and never above it.  assume / propagate may backjump (assumed: they never leave the level higher than
    # one above / at the level they found), pop closes exactly one level (proved above).
    ASSUME, PROP, POP = 'smt_sat_core_assume__lit', 'smt_sat_core_propagate', 'smt_sat_core_pop'
    LV = 'self->trail_lim.n'
    stubs2 = {ASSUME: Contract(requires=['1'], ensures=[('at_most_one_level_opened', '%s <= %s + 1' % (LV, OLD(LV)))], assigns='self->trail_lim'),
              PROP: Contract(requires=['1'], ensures=[('no_level_opened', '%s <= %s' % (LV, OLD(LV)))], assigns='self->trail_lim'),
              POP: Contract(requires=['%s >= 1' % LV], ensures=[('level_closed', '%s == %s - 1' % (LV, OLD(LV)))], assigns='self->trail_lim')}
    out.append(Job('sat.check_lits', 'smt_sat_core_check__vec_lit', tus=TUS_S,
                   contract=Contract(requires=[FRESH, '__exc == 0 && %s <= 2 && lits.n <= 2' % LV],
                                     ensures=[('noexcept', '__exc == 0'),
                                              ('trial_assumptions_undone', '%s ? %s == %s : %s <= %s' % (R, LV, OLD(LV), LV, OLD(LV))),
                                              ('WITNESS_compatible_literals_are_reachable', '!(%s && lits.n == 2)' % R)],
                                     assigns='__exc, self->trail_lim'),
                   defines=d, unwind=6, model_unwind=6, spec_headers=[], callee_contracts=stubs2, replace=list(stubs2), exceptions=True,
                   caps=dict(CAPS_S, vec_U=5), abstract_fields={'smt::sat_core': ['trail_lim'], 'smt::constr': [], 'smt::sat_value_listener': [], 'smt::theory': []}, timeout=1200,
                   force_types=['std::vector<smt::lit>', 'std::vector<unsigned long>'],
                   bounded='<= 2 trial literals, <= 2 open levels on entry; assume/propagate/pop by contract'))


# what the evidence file says is NOT decided by this module, and what it assumes
INFO = {'not_under_contract': ['rdl_theory undo layers', 'ov_theory and lra_theory tableau/pivot state', 'solver / core level push-pop (flaws, resolvers)', 'the re-propagation loop of idl_theory::propagate(from,to,dist) over registered undecided constraints'], 'assumptions': ['the hop-count invariant of the predecessor matrix (proved for the edge step under C10) is a precondition of the propagate(const lit&) job', 'idl value listeners and lra propagation callbacks do not touch the logged state']}
