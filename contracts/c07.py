"""C07 — the constraint network only infers what is entailed (DESIGN §5/C07): the two-watched-literal clause.

clause::propagate(p) is proved to report a conflict only if every literal is false, to enqueue a literal only when it is the
single non-false literal of the clause (never a literal the clause does not force), to keep the literals a permutation, and
to re-register the clause in exactly the watch list of the negation of its second literal.  get_reason returns exactly the
negations of the other literals; simplify drops exactly the false literals and reports satisfaction only for a true literal.
sat_core::enqueue is replaced by its contract in propagate and proved against it in its own job."""
from vlib.engine import Contract, Job, Known

TUS = ['smt/clause.cpp', 'smt/constr.cpp']
SPEC = ['sat_spec.h', 'clause_spec.h']
R = '__CPROVER_return_value'
ABS = {'smt::sat_core': ['assigns', 'watches', 'reason'], 'smt::constr': ['sat', 'id'], 'smt::clause': ['lits']}
SAT = 'self->base_constr.sat'
ENQ = 'smt_sat_core_enqueue__lit__constrp'
OLD = lambda e: '__CPROVER_old(%s)' % e
C_ENQ = Contract(requires=['sp_var(*p) < self->assigns.n'],
                 ensures=[('post', 'spc_enqueue_post(%s, self->assigns, *p, %s)' % (OLD('self->assigns'), R))], assigns='self->assigns')


def jobs(tier):
    out = []
    NV, ML = 4, (3 if tier == 'quick' else 4)
    d = {'U_BITS': 16, 'XT_NV': NV, 'XT_MAXV': NV, 'XT_MAXLITS': ML, 'XT_MAXCL': 2}
    caps = {'vec_lit': ML, 'vec_us': NV, 'vec_constrp': 2, 'vec_vec_constrp': 2 * NV}
    FRESH = '__CPROVER_is_fresh(self, sizeof(*self)) && __CPROVER_is_fresh(%s, sizeof(*%s))' % (SAT, SAT)
    STATE = 'sp_assigns_wf(%s->assigns, XT_NV) && %s->assigns.n == XT_NV && spc_watches_shape(%s->watches) && %s->reason.n == XT_NV && __exc == 0' % (SAT, SAT, SAT, SAT)
    FORCE = ['std::vector<smt::lit>', 'std::vector<unsigned short>']

    def J(name, target, contract, replace=(), **kw):
        out.append(Job('clause.' + name, target, tus=TUS, contract=contract, defines=d, unwind=ML + 2, model_unwind=2 * NV + 2, spec_headers=SPEC,
                       callee_contracts={ENQ: C_ENQ}, replace=list(replace), exceptions=True, caps=caps, abstract_fields=ABS, force_types=FORCE,
                       timeout=2400, solver='cadical',
                       bounded='clauses of 2..%d literals on pairwise different variables, %d variables with symbolic values, watch lists of <= 1 entries' % (ML, NV), **kw))

    A0 = OLD(SAT + '->assigns')
    L0 = OLD('self->lits')
    J('propagate', 'smt_clause_propagate__lit',
      Contract(requires=[FRESH + ' && __CPROVER_is_fresh(p, sizeof(*p))', STATE, 'spc_lits_wf(self->lits, 2, XT_MAXLITS)',
                         'sp_var(*p) < XT_NV && sp_val(%s->assigns, *p) == SP_TRUE' % SAT,
                         '(self->lits.e[0].x == (p->x ^ 1)) || (self->lits.e[1].x == (p->x ^ 1))'],
               ensures=[('noexcept', '__exc == 0'),
                        ('only_entailed_inferences', 'spc_propagate_post(%s, %s->assigns, %s, self->lits, *p, %s)' % (A0, SAT, L0, R)),
                        ('watched_on_the_second_literal', 'spc_watch_added(%s, %s->watches, self->lits.e[1].x ^ 1, &self->base_constr)' % (OLD(SAT + '->watches'), SAT)),
                        ('false_watch_is_second', '%s || sp_val(%s, self->lits.e[0]) == SP_TRUE || sp_val(%s, self->lits.e[1]) != SP_FALSE || (self->lits.e[1].x ^ 1) == p->x' % ('!' + R, A0, A0))],
               assigns='__exc, self->lits, %s->assigns, %s->watches' % (SAT, SAT)),
      replace=[ENQ])
    J('get_reason', 'smt_clause_get_reason__lit__vec_lit',
      Contract(requires=[FRESH + ' && __CPROVER_is_fresh(p, sizeof(*p)) && __CPROVER_is_fresh(out_reason, sizeof(*out_reason))', STATE,
                         'spc_lits_wf(self->lits, 2, XT_MAXLITS) && out_reason->n == 0',
                         '(p->x == (U_t)-1 && spc_all_false(%s->assigns, self->lits, 0)) || (p->x == self->lits.e[0].x && spc_all_false(%s->assigns, self->lits, 1))' % (SAT, SAT)],
               ensures=[('noexcept', '__exc == 0'),
                        ('exactly_the_negated_other_literals', 'spc_reason_is(*out_reason, self->lits, p->x == (U_t)-1 ? 0 : 1)')],
               assigns='__exc, *out_reason'))
    J('simplify', 'smt_clause_simplify',
      Contract(requires=[FRESH, STATE, 'spc_lits_wf(self->lits, 2, XT_MAXLITS)'],
               ensures=[('noexcept', '__exc == 0'),
                        ('satisfied_iff_a_literal_is_true', '%s == spc_any_true(%s, %s)' % (R, A0, L0)),
                        ('keeps_exactly_the_undecided_literals', '%s || spc_is_filter_undef(%s, %s, self->lits)' % (R, A0, L0))],
               assigns='__exc, self->lits'))

    # ---- sat_core::enqueue, the body behind the contract used above (and by new_clause in C13)
    ABS_S = {'smt::sat_core': ['assigns', 'level', 'reason', 'trail', 'trail_lim', 'prop_q', 'listening'], 'smt::constr': [], 'smt::sat_value_listener': []}
    LST = 'smt_sat_value_listener_sat_value_change__U'
    FS = '__CPROVER_is_fresh(self, sizeof(*self)) && __CPROVER_is_fresh(p, sizeof(*p))'
    V = 'sp_var(*p)'
    out.append(Job('sat.enqueue', ENQ, tus=['smt/sat_core.cpp'],
                   contract=Contract(
                       requires=[FS, '__exc == 0 && sp_assigns_wf(self->assigns, XT_NV) && self->assigns.n == XT_NV && self->level.n == XT_NV && self->reason.n == XT_NV',
                                 'self->trail.n < XT_NV && self->prop_q.n < XT_NV && self->trail_lim.n <= 2 && self->listening.n == 0 && %s < XT_NV' % V],
                       ensures=[('noexcept', '__exc == 0'),
                                ('post', 'spc_enqueue_post(%s, self->assigns, *p, %s)' % (OLD('self->assigns'), R)),
                                ('undecided_literal_is_recorded', 'sp_val(%s, *p) != SP_UNDEF || (self->level.e[%s] == self->trail_lim.n && self->reason.e[%s] == c && '
                                 'self->trail.n == %s + 1 && self->trail.e[%s].x == p->x && self->prop_q.n == %s + 1 && self->prop_q.e[%s].x == p->x)' % (
                                     OLD('self->assigns'), V, V, OLD('self->trail.n'), OLD('self->trail.n'), OLD('self->prop_q.n'), OLD('self->prop_q.n'))),
                                ('decided_literal_changes_nothing', 'sp_val(%s, *p) == SP_UNDEF || (self->trail.n == %s && self->prop_q.n == %s)' % (
                                    OLD('self->assigns'), OLD('self->trail.n'), OLD('self->prop_q.n')))],
                       assigns='__exc, self->assigns, self->level, self->reason, self->trail, self->prop_q'),
                   defines=d, unwind=NV + 2, model_unwind=2 * NV + 2, spec_headers=SPEC, callee_contracts={LST: Contract(requires=['1'], ensures=['1'], assigns='')},
                   replace=[LST], exceptions=True, caps={'vec_lit': NV, 'vec_us': NV, 'vec_U': NV, 'vec_constrp': NV, 'vec_vec_constrp': 2 * NV,
                                                         'umap_U_set_sat_value_listenerp': 1, 'set_sat_value_listenerp': 1},
                   abstract_fields=ABS_S, force_types=FORCE + ['std::vector<std::vector<smt::constr *>>'], timeout=2400, solver='cadical',
                   bounded='%d variables, no value listeners registered' % NV))
    return out


# what the evidence file says is NOT decided by this module, and what it assumes
INFO = {'not_under_contract': ['sat_core::propagate main loop, analyze, record, next, simplify_db, check(lits)', 'the theory seam (theory::propagate / check called from the core)', 'sat_stack'], 'assumptions': ['value listeners do not touch the network']}
