/* lin_spec.h — view of smt::lin: a finite map var -> rational coefficient (0 outside the map) plus a constant term */
#ifndef LIN_SPEC_H
#define LIN_SPEC_H
#include "arith_spec.h"

#ifndef LIN_MAX
#define LIN_MAX 3
#endif

/* coefficient of variable v (by value: usable on __CPROVER_return_value) */
static inline struct smt_rational sp_coeff(struct smt_lin l, U_t v)
{
  struct smt_rational r = sp_of_int(0);
  for (U_t i = 0; i < LIN_MAX; i++)
    if (i < l.vars.n && l.vars.e[i].first == v) r = l.vars.e[i].second;
  return r;
}
/* number of terms within the operand bound (stated first so that the loops below are bounded) */
static inline _Bool lin_shape(struct smt_lin l) { return l.vars.n <= LIN_MAX; }
/* structural well-formedness of the map model + canonical finite coefficients in range */
static inline _Bool wf_lin(struct smt_lin l)
{
  if (l.vars.n > LIN_MAX) return 0;
  for (U_t i = 0; i < LIN_MAX; i++)
    if (i < l.vars.n)
    {
      if (i + 1 < l.vars.n && !(l.vars.e[i].first < l.vars.e[i + 1].first)) return 0;
      if (!wf_rat(l.vars.e[i].second) || sp_is_inf(l.vars.e[i].second)) return 0;
    }
  return wf_rat(l.known_term) && !sp_is_inf(l.known_term);
}
/* no stored zero coefficient (the canonical form lin - lin produces) */
static inline _Bool lin_nonzero(struct smt_lin l)
{
  for (U_t i = 0; i < LIN_MAX; i++)
    if (i < l.vars.n && l.vars.e[i].second.num == 0) return 0;
  return 1;
}
static inline _Bool in_range_lin(struct smt_lin l)
{
  for (U_t i = 0; i < LIN_MAX; i++)
    if (i < l.vars.n && !in_range(l.vars.e[i].second)) return 0;
  return in_range(l.known_term);
}
/* sorted keys + canonical coefficients only (results may leave the input magnitude range) */
static inline _Bool wf_lin_res(struct smt_lin l, U_t cap)
{
  if (l.vars.n > cap) return 0;
  for (U_t i = 0; i < 2 * LIN_MAX; i++)
    if (i < l.vars.n)
    {
      if (i + 1 < l.vars.n && !(l.vars.e[i].first < l.vars.e[i + 1].first)) return 0;
      if (!wf_rat(l.vars.e[i].second)) return 0;
    }
  return wf_rat(l.known_term);
}
static inline struct smt_rational sp_coeff2(struct smt_lin l, U_t v)
{
  struct smt_rational r = sp_of_int(0);
  for (U_t i = 0; i < 2 * LIN_MAX; i++)
    if (i < l.vars.n && l.vars.e[i].first == v) r = l.vars.e[i].second;
  return r;
}
static inline _Bool sp_lin_rec(int base, struct smt_lin l)
{
  xt_recu(base, (unsigned long)l.vars.n);
  for (U_t i = 0; i < LIN_MAX; i++)
    if (i < l.vars.n) { xt_recu(base + 1 + 3 * (int)i, (unsigned long)l.vars.e[i].first); xt_rec(base + 2 + 3 * (int)i, l.vars.e[i].second.num); xt_rec(base + 3 + 3 * (int)i, l.vars.e[i].second.den); }
  xt_rec(base + 20, l.known_term.num); xt_rec(base + 21, l.known_term.den);
  return 1;
}
#endif
