"""C10 — difference logic: distances are exact (DESIGN §5/C10), the inductive APSP step.

idl_theory::propagate(from, to, dist) is proved to turn a closed distance matrix D (D = its own shortest-path closure,
no negative cycle) into exactly the closure of D plus the new edge: D'[i][j] = min(D[i][j], D[i][from] + dist + D[to][j]).
Since the constructor establishes the closed matrix of the empty constraint set and every asserted constraint goes through
this step, "the reported distances are the tightest ones implied" follows for histories of any length; what is bounded is
the matrix dimension.  set_dist / set_pred are replaced by their (C08-proved) contracts."""
from vlib.engine import Contract, Job, Known

TUS = ['smt/arith/dl/idl_theory.cpp', 'smt/theory.cpp']
ABS = {'smt::sat_core': ['assigns'], 'smt::theory': ['sat', 'cnfl'], 'smt::idl_theory': ['n_vars', '_dists', '_preds', 'dist_constr', 'dist_constrs', 'layers', 'listening'],
       'smt::idl_theory::idl_distance': ['b', 'from', 'to', 'dist'], 'smt::idl_value_listener': []}
SETD = 'smt_idl_theory_set_dist__U__U__I'
SETP = 'smt_idl_theory_set_pred__U__U__U'
REC = 'smt_theory_record__vec_lit'
OLD = lambda e: '__CPROVER_old(%s)' % e

C_SETD = Contract(requires=['*from < XT_N && *to < XT_N', 'self->_dists.e[*from].e[*to] > *dist'],
                  ensures=[('only_the_entry_changes', 'spa_D_eq_except(%s, self->_dists, *from, *to, %s)' % (OLD('self->_dists'), OLD('*dist')))], assigns='self->_dists')
C_SETP = Contract(requires=['*from < XT_N && *to < XT_N'],
                  ensures=[('only_the_entry_changes', 'spa_P_eq_except(%s, self->_preds, *from, *to, %s)' % (OLD('self->_preds'), OLD('*pred')))], assigns='self->_preds')
C_REC = Contract(requires=['1'], ensures=['1'], assigns='')


def jobs(tier):
    out = []
    N = 4
    d = {'U_BITS': 8, 'I_BITS': 8, 'WIDE_BITS': 16, 'XT_N': N, 'XT_R': 3} if tier == 'quick' else {'U_BITS': 16, 'I_BITS': 16, 'XT_N': N}
    caps = {'vec_vec_I': N, 'vec_I': N, 'vec_vec_U': N, 'vec_U': N, 'vec_pair_U_U': 2 + 4 * N + 2 * N * N, 'map_pair_U_U_vec_idl_distancep': 1,
            'vec_idl_distancep': 1, 'map_pair_U_U_idl_distancep': 1, 'vec_lit': 2, 'vec_us': 2, 'vec_layer': 1, 'map_pair_U_U_I': 1, 'map_pair_U_U_U': 1,
            'umap_U_set_idl_value_listenerp': 1, 'set_idl_value_listenerp': 1}
    c = Contract(
        requires=['__CPROVER_is_fresh(from, sizeof(*from)) && __CPROVER_is_fresh(to, sizeof(*to)) && __CPROVER_is_fresh(dist, sizeof(*dist))',
                  '__exc == 0 && self->n_vars == XT_N && spa_shape(self->_dists, self->_preds)', 'spa_range(self->_dists)', 'spa_closed(self->_dists)',
                  '*from < XT_N && *to < XT_N && *from != *to && *dist >= -XT_R && *dist <= XT_R',
                  'self->_dists.e[*from].e[*to] > *dist', 'self->_dists.e[*to].e[*from] == XT_INF || self->_dists.e[*to].e[*from] + *dist >= 0',
                  'self->dist_constrs.n == 0 && self->base_theory.cnfl.n == 0',
                  'spa_E_shape(xt_E) && spa_edges_respected(self->_dists, xt_E) && spa_pred_ok(self->_dists, self->_preds, xt_E)',
                  '(xt_E.e[*from].e[*to] == XT_INF || xt_E.e[*from].e[*to] > *dist)', 'spa_rec(self->_dists, self->_preds, xt_E, *from, *to, *dist)'],
        ensures=[('noexcept', '__exc == 0'),
                 ('distances_are_the_exact_closure', 'spa_is_closure_step(%s, self->_dists, *from, *to, *dist)' % OLD('self->_dists')),
                 ('still_closed', 'spa_closed(self->_dists)'),
                 ('predecessors_are_last_hops_of_shortest_paths', 'spa_pred_ok(self->_dists, self->_preds, spa_E_with(xt_E, *from, *to, *dist))'),
                 ('edges_respected', 'spa_edges_respected(self->_dists, spa_E_with(xt_E, *from, *to, *dist))'),
                 ('nothing_learnt_without_registered_constraints', 'self->base_theory.cnfl.n == 0')],
        assigns='__exc, self->_dists, self->_preds, self->base_theory.cnfl')
    out.append(Job('idl.propagate_edge', 'smt_idl_theory_propagate__U__U__I', tus=TUS, contract=c, defines=d, unwind=N + 2, model_unwind=max(2 + 4 * N + 2 * N * N, 12) + 1,
                   spec_headers=['dl_apsp_spec.h'], callee_contracts={REC: C_REC, 'smt_idl_value_listener_idl_value_change__U': C_REC}, replace=[REC, 'smt_idl_value_listener_idl_value_change__U'], exceptions=True,
                   caps=caps, abstract_fields=ABS, timeout=3000, mem_gb=32, solver='cadical', loop_unwind={6: 2 + 4 * N + 2 * N * N + 2},
                   # the theory object is owned by the harness so that 'no registered constraints' is a concrete fact for symbolic execution
                   harness='void xt_harness(void)\n{\n  xt_init_globals();\n  struct smt_idl_theory th; th.dist_constrs.n = 0; th.base_theory.cnfl.n = 0; th.layers.n = 0; th.listening.n = 0;   /* root level, no listeners: set_dist/set_pred run inline */\n  { struct vec_vec_I ge; xt_E = ge; }\n  U_t *from; U_t *to; I_t *dist;\n  smt_idl_theory_propagate__U__U__I(&th, from, to, dist);\n}\n',
                   force_types=['std::vector<std::vector<long>>', 'std::vector<std::vector<unsigned long>>'],
                   replay={'driver': 'dl', 'stanza': '''  const int n = XT_N; sat_core sat; long xinf = %s;
  idl_theory *th = build_idl(sat, n, xinf);
  std::vector<std::vector<I>> D0 = th->_dists;
  size_t from = S[1], to = S[2]; I dist = S[3];
  th->propagate(from, to, dist);
  // oracle: exact closure step, and predecessors as last hops of shortest paths w.r.t. the ghost edges (base 300)
  std::vector<std::vector<I>> E(n, std::vector<I>(n));
  for (int i = 0; i < n; i++) for (int j = 0; j < n; j++) E[i][j] = (S[300 + i * n + j] == xinf) ? idl_theory::inf() : S[300 + i * n + j];
  E[from][to] = dist;
  std::string why;
  for (int i = 0; i < n; i++) for (int j = 0; j < n; j++) {
    I best = D0[i][j];
    if (D0[i][from] != idl_theory::inf() && D0[to][j] != idl_theory::inf() && D0[i][from] + dist + D0[to][j] < best) best = D0[i][from] + dist + D0[to][j];
    if (th->_dists[i][j] != best) { ok = false; why += " D[" + std::to_string(i) + "][" + std::to_string(j) + "] is not the closure;"; }
    if (i != j && th->_dists[i][j] != idl_theory::inf()) {
      size_t k = th->_preds[i][j];
      if (k >= (size_t)n || k == (size_t)j || E[k][j] == idl_theory::inf() || th->_dists[i][k] == idl_theory::inf() || th->_dists[i][j] != th->_dists[i][k] + E[k][j]) { ok = false; why += " pred[" + std::to_string(i) + "][" + std::to_string(j) + "]=" + std::to_string(k) + " is not the last hop of a shortest path;"; } } }
  observed = show_matrix(th->_dists, n) + why; required = "closure of the old matrix plus the edge; predecessors = last hops";
''' % ('62' if tier == 'quick' else '16382')},
                   bounded='%d time points; finite weights in [-3, 3] (quick) / [-8, 8] plus the inf() sentinel; no registered undecided constraints (the re-propagation loop is empty)' % N))
    return out
