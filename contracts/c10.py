"""C10 — difference logic: distances are exact (DESIGN §5/C10), the inductive APSP step.

idl_theory::propagate(from, to, dist) is proved to turn a closed distance matrix D (D = its own shortest-path closure,
no negative cycle) into exactly the closure of D plus the new edge: D'[i][j] = min(D[i][j], D[i][from] + dist + D[to][j]).
Since the constructor establishes the closed matrix of the empty constraint set and every asserted constraint goes through
this step, "the reported distances are the tightest ones implied" follows for histories of any length; what is bounded is
the matrix dimension.  set_dist / set_pred are replaced by their (C08-proved) contracts."""
from vlib.engine import Contract, Job, Known

R = '__CPROVER_return_value'

TUS = ['smt/arith/dl/idl_theory.cpp', 'smt/theory.cpp']
ABS = {'smt::sat_core': ['assigns'], 'smt::theory': ['sat', 'cnfl'], 'smt::idl_theory': ['n_vars', '_dists', '_preds', 'dist_constr', 'dist_constrs', 'layers', 'listening'],
       'smt::idl_theory::idl_distance': ['b', 'from', 'to', 'dist'], 'smt::idl_value_listener': []}
SETD = 'smt_idl_theory_set_dist__U__U__I'
SETP = 'smt_idl_theory_set_pred__U__U__U'
REC = 'smt_theory_record__vec_lit'
OLD = lambda e: '__CPROVER_old(%s)' % e

C_SETD = Contract(requires=['*from < XT_N && *to < XT_N', 'self->_dists.e[*from].e[*to] > *dist'],
                  ensures=[('only_the_entry_changes', 'spa_D_eq_except(%s, self->_dists, *from, *to, %s)' % (OLD('self->_dists'), OLD('*dist')))], assigns='self->_dists')
C_SETP = Contract(requires=['*from < XT_N && *to < XT_N'],
                  ensures=[('only_the_entry_changes', 'spa_P_eq_except(%s, self->_preds, *from, *to, %s)' % (OLD('self->_preds'), OLD('*pred')))], assigns='self->_preds')
C_REC = Contract(requires=['1'], ensures=['1'], assigns='')


def jobs(tier):
    out = []
    # quick: 3 time points (the check must finish within minutes); thorough: 4, which is what the i x j double loop of the edge step needs
    N = 3 if tier == 'quick' else 4
    # both tiers run the same instance: the 16-bit / weights +-8 variant of the edge step did not finish within the time budget of this
    # sandbox (hours), so it is not offered as a check that could only ever time out
    d = {'U_BITS': 8, 'I_BITS': 8, 'WIDE_BITS': 16, 'XT_N': N, 'XT_R': 3}
    caps = {'vec_vec_I': N, 'vec_I': N, 'vec_vec_U': N, 'vec_U': N, 'vec_pair_U_U': 2 + 4 * N + 2 * N * N, 'map_pair_U_U_vec_idl_distancep': 1,
            'vec_idl_distancep': 1, 'map_pair_U_U_idl_distancep': 1, 'vec_lit': 2, 'vec_us': 2, 'vec_layer': 1, 'map_pair_U_U_I': 1, 'map_pair_U_U_U': 1,
            'umap_U_set_idl_value_listenerp': 1, 'set_idl_value_listenerp': 1}
    c = Contract(
        requires=['__CPROVER_is_fresh(from, sizeof(*from)) && __CPROVER_is_fresh(to, sizeof(*to)) && __CPROVER_is_fresh(dist, sizeof(*dist))',
                  '__exc == 0 && self->n_vars == XT_N && spa_shape(self->_dists, self->_preds)', 'spa_range(self->_dists)', 'spa_closed(self->_dists)',
                  '*from < XT_N && *to < XT_N && *from != *to && *dist >= -XT_R && *dist <= XT_R',
                  'self->_dists.e[*from].e[*to] > *dist', 'self->_dists.e[*to].e[*from] == XT_INF || self->_dists.e[*to].e[*from] + *dist >= 0',
                  'self->dist_constrs.n == 0 && self->base_theory.cnfl.n == 0',
                  'spa_E_shape(xt_E) && spa_edges_respected(self->_dists, xt_E) && spa_pred_ok(self->_dists, self->_preds, xt_E)',
                  '(xt_E.e[*from].e[*to] == XT_INF || xt_E.e[*from].e[*to] > *dist)', 'spa_rec(self->_dists, self->_preds, xt_E, *from, *to, *dist)'],
        ensures=[('noexcept', '__exc == 0'),
                 ('distances_are_the_exact_closure', 'spa_is_closure_step(%s, self->_dists, *from, *to, *dist)' % OLD('self->_dists')),
                 ('still_closed', 'spa_closed(self->_dists)'),
                 ('predecessors_are_last_hops_of_shortest_paths', 'spa_pred_ok(self->_dists, self->_preds, spa_E_with(xt_E, *from, *to, *dist))'),
                 ('edges_respected', 'spa_edges_respected(self->_dists, spa_E_with(xt_E, *from, *to, *dist))'),
                 ('nothing_learnt_without_registered_constraints', 'self->base_theory.cnfl.n == 0')],
        assigns='__exc, self->_dists, self->_preds, self->base_theory.cnfl')
    out.append(Job('idl.propagate_edge', 'smt_idl_theory_propagate__U__U__I', tus=TUS, contract=c, defines=d, unwind=N + 2, model_unwind=max(2 + 4 * N + 2 * N * N, 12) + 1,
                   spec_headers=['dl_apsp_spec.h'], callee_contracts={REC: C_REC, 'smt_idl_value_listener_idl_value_change__U': C_REC}, replace=[REC, 'smt_idl_value_listener_idl_value_change__U'], exceptions=True,
                   caps=caps, abstract_fields=ABS, timeout=3000, mem_gb=32, mem_est=8, solver='cadical', loop_unwind={6: 2 + 4 * N + 2 * N * N + 2},
                   # the theory object is owned by the harness so that 'no registered constraints' is a concrete fact for symbolic execution
                   harness='void xt_harness(void)\n{\n  xt_init_globals();\n  struct smt_idl_theory th; th.dist_constrs.n = 0; th.base_theory.cnfl.n = 0; th.layers.n = 0; th.listening.n = 0;   /* root level, no listeners: set_dist/set_pred run inline */\n  { struct vec_vec_I ge; xt_E = ge; }\n  U_t *from; U_t *to; I_t *dist;\n  smt_idl_theory_propagate__U__U__I(&th, from, to, dist);\n}\n',
                   force_types=['std::vector<std::vector<long>>', 'std::vector<std::vector<unsigned long>>'],
                   replay={'driver': 'dl', 'stanza': '''  const int n = XT_N; sat_core sat; long xinf = %s;
  idl_theory *th = build_idl(sat, n, xinf);
  std::vector<std::vector<I>> D0 = th->_dists;
  size_t from = S[1], to = S[2]; I dist = S[3];
  th->propagate(from, to, dist);
  // oracle: exact closure step, and predecessors as last hops of shortest paths w.r.t. the ghost edges (base 300)
  std::vector<std::vector<I>> E(n, std::vector<I>(n));
  for (int i = 0; i < n; i++) for (int j = 0; j < n; j++) E[i][j] = (S[300 + i * n + j] == xinf) ? idl_theory::inf() : S[300 + i * n + j];
  E[from][to] = dist;
  std::string why;
  for (int i = 0; i < n; i++) for (int j = 0; j < n; j++) {
    I best = D0[i][j];
    if (D0[i][from] != idl_theory::inf() && D0[to][j] != idl_theory::inf() && D0[i][from] + dist + D0[to][j] < best) best = D0[i][from] + dist + D0[to][j];
    if (th->_dists[i][j] != best) { ok = false; why += " D[" + std::to_string(i) + "][" + std::to_string(j) + "] is not the closure;"; }
    if (i != j && th->_dists[i][j] != idl_theory::inf()) {
      size_t k = th->_preds[i][j];
      if (k >= (size_t)n || k == (size_t)j || E[k][j] == idl_theory::inf() || th->_dists[i][k] == idl_theory::inf() || th->_dists[i][j] != th->_dists[i][k] + E[k][j]) { ok = false; why += " pred[" + std::to_string(i) + "][" + std::to_string(j) + "]=" + std::to_string(k) + " is not the last hop of a shortest path;"; } } }
  observed = show_matrix(th->_dists, n) + why; required = "closure of the old matrix plus the edge; predecessors = last hops";
''' % '62'},
                   bounded='%d time points (3 in quick, 4 in thorough); finite weights in [-3, 3] plus the inf() sentinel; no registered undecided constraints (the re-propagation loop is empty)' % N))
    if tier == 'quick' or True:
        # the same step at 4 time points (the i x j double loop needs them), split into four jobs (two sets of postconditions x two directions of the edge) so that each stays within the
        # time a per-change check may take: distances / predecessors are proved from the same preconditions in parallel
        import copy
        for part, keep, case in (('distances_up', ('noexcept', 'distances_are_the_exact_closure', 'still_closed', 'nothing_learnt_without_registered_constraints'), '*from < *to'),
                                 ('distances_down', ('noexcept', 'distances_are_the_exact_closure', 'still_closed', 'nothing_learnt_without_registered_constraints'), '*from > *to'),
                                 ('predecessors_up', ('predecessors_are_last_hops_of_shortest_paths', 'edges_respected'), '*from < *to'),
                                 ('predecessors_down', ('predecessors_are_last_hops_of_shortest_paths', 'edges_respected'), '*from > *to')):
            j4 = copy.copy(out[0])
            N4 = 4
            j4.name = 'idl.propagate_edge_4_' + part
            j4.contract = Contract(requires=list(c.requires[:-1]) + [case + ' /* case split over the direction of the new edge: the two cases together cover from != to */', c.requires[-1]], ensures=[e for e in c.ensures if e[0] in keep], assigns=c.assigns)
            j4.defines = dict(d, XT_N=N4, XT_R=2)   # weights in [-2, 2]: keeps the slower of the two jobs well inside the per-change time limit
            j4.caps = dict(caps, vec_vec_I=N4, vec_I=N4, vec_vec_U=N4, vec_U=N4, vec_pair_U_U=2 + 4 * N4 + 2 * N4 * N4)
            j4.unwind, j4.model_unwind, j4.loop_unwind = N4 + 2, max(2 + 4 * N4 + 2 * N4 * N4, 12) + 1, {6: 2 + 4 * N4 + 2 * N4 * N4 + 2}
            j4.bounded = '4 time points; finite weights in [-2, 2] plus the inf() sentinel; no registered undecided constraints; the postconditions of the step and the direction of the new edge (from < to, from > to) are split over four jobs'
            if tier == 'quick':
                out.append(j4)
    out.append(lit_job(tier, c))
    out.append(resize_job(tier))
    out.extend(hops_jobs(tier, c))
    return out


def hops_jobs(tier, c_edge):
    """termination of the predecessor walks (the explanation loops of propagate(const lit&)) as an invariant instead of an assumption:
    (1) the edge step keeps the hop-count invariant spa_hops_ok for explicitly given new hop counts; (2) lemma: spa_hops_ok implies
    that every predecessor walk reaches its row's time point within XT_N - 1 hops."""
    N = 3 if tier == 'quick' else 4   # the i x j double loop of the edge step needs four different time points (thorough tier)
    d = {'U_BITS': 8, 'I_BITS': 8, 'WIDE_BITS': 16, 'XT_N': N, 'XT_R': 3}
    caps = {'vec_vec_I': N, 'vec_I': N, 'vec_vec_U': N, 'vec_U': N, 'vec_pair_U_U': 2 + 4 * N + 2 * N * N, 'map_pair_U_U_vec_idl_distancep': 1,
            'vec_idl_distancep': 1, 'map_pair_U_U_idl_distancep': 1, 'vec_lit': 2, 'vec_us': 2, 'vec_layer': 1, 'map_pair_U_U_I': 1, 'map_pair_U_U_U': 1,
            'umap_U_set_idl_value_listenerp': 1, 'set_idl_value_listenerp': 1}
    D0 = OLD('self->_dists')
    c = Contract(requires=[r for r in c_edge.requires if 'spa_rec' not in r] + ['spa_hops_ok(self->_dists, self->_preds, xt_H)'],
                 ensures=[('noexcept', '__exc == 0'),
                          ('hop_count_invariant_kept', 'spa_hops_ok(self->_dists, self->_preds, spa_H_step(%s, self->_dists, xt_H, *from, *to))' % D0),
                          (('WITNESS_an_improvement_through_both_legs_is_reachable', '!(*from == 1 && *to == 2 && self->_dists.e[0].e[3] != %s.e[0].e[3])' % D0) if N >= 4 else
                           ('WITNESS_an_improvement_through_the_first_leg_is_reachable', '!(*from == 1 && *to == 2 && self->_dists.e[0].e[2] != %s.e[0].e[2])' % D0))],
                 assigns='__exc, self->_dists, self->_preds, self->base_theory.cnfl')
    HARN = ('void xt_harness(void)\n{\n  xt_init_globals();\n  struct smt_idl_theory th; th.dist_constrs.n = 0; th.base_theory.cnfl.n = 0; th.layers.n = 0; th.listening.n = 0;\n'
            '  { struct vec_vec_I ge; xt_E = ge; struct vec_vec_U gh; xt_H = gh; }\n  U_t *from; U_t *to; I_t *dist;\n  smt_idl_theory_propagate__U__U__I(&th, from, to, dist);\n}\n')
    j1 = Job('idl.propagate_edge_hops', 'smt_idl_theory_propagate__U__U__I', tus=TUS, contract=c, defines=d, unwind=N + 2, model_unwind=max(2 + 4 * N + 2 * N * N, 12) + 1,
             spec_headers=['dl_apsp_spec.h'], callee_contracts={REC: C_REC, 'smt_idl_value_listener_idl_value_change__U': C_REC}, replace=[REC, 'smt_idl_value_listener_idl_value_change__U'], exceptions=True,
             caps=caps, abstract_fields=ABS, timeout=3000, mem_gb=32, mem_est=8, solver='cadical', loop_unwind={6: 2 + 4 * N + 2 * N * N + 2}, harness=HARN,
             force_types=['std::vector<std::vector<long>>', 'std::vector<std::vector<unsigned long>>'],
             bounded='%d time points, weights in [-3, 3]; no registered undecided constraints' % N)
    LEM = '''void xt_harness(void)
{
  struct vec_vec_I D; struct vec_vec_U P; struct vec_vec_U H;
  __CPROVER_assume(h_spa_shape(D, P) && h_spa_hops_ok(D, P, H));
  __CPROVER_assert(h_spa_all_walks_ok(D, P), "every_predecessor_walk_reaches_its_row_within_N_minus_1_hops");
  __CPROVER_assert(xt_canary, "xt canary");
}
'''
    dl = dict(d, XT_N=4)
    j2 = Job('idl.hops_imply_walks', None, tus=TUS, contract=None, enforce=False, defines=dl, unwind=6, model_unwind=6, spec_headers=['dl_apsp_spec.h'],
             caps={'vec_vec_I': 4, 'vec_I': 4, 'vec_vec_U': 4, 'vec_U': 4}, abstract_fields={'smt::sat_core': [], 'smt::theory': ['sat'], 'smt::idl_theory': ['n_vars', '_dists', '_preds']}, harness=LEM, roots=['smt_idl_theory_size'],
             timeout=1200, mem_gb=12, solver='cadical', force_types=['std::vector<std::vector<long>>', 'std::vector<std::vector<unsigned long>>'],
             bounded='pure lemma over the specification predicates, 4 time points, hop counts up to 255')
    return [j1, j2]


def resize_job(tier):
    """idl_theory::resize (matrix growth behind new_var): old entries are kept; every new pair is unconstrained (inf()), new diagonal
    entries are 0, new predecessor entries point to the row's own time point - so the grown matrix is again the closed matrix of the
    same constraints over more time points."""
    N = 4
    d = {'U_BITS': 8, 'I_BITS': 8, 'WIDE_BITS': 16, 'XT_N': N, 'XT_R': 3}
    GH = '''static inline _Bool spr_shape(struct vec_vec_I D, struct vec_vec_U P, U_t n)
{
  if (D.n != n || P.n != n) return 0;
  for (U_t i = 0; i < XT_N; i++) if (i < n && (D.e[i].n != n || P.e[i].n != n)) return 0;
  return 1;
}
static inline _Bool spr_grown(struct vec_vec_I D0, struct vec_vec_U P0, U_t n0, struct vec_vec_I D1, struct vec_vec_U P1, U_t n1)
{
  for (U_t i = 0; i < XT_N; i++)
    for (U_t j = 0; j < XT_N; j++)
      if (i < n1 && j < n1)
      {
        if (i < n0 && j < n0) { if (D1.e[i].e[j] != D0.e[i].e[j] || P1.e[i].e[j] != P0.e[i].e[j]) return 0; }
        else
        {
          if (D1.e[i].e[j] != (i == j ? 0 : XT_INF)) return 0;
          if (P1.e[i].e[j] != (i == j ? (U_t)-1 : i)) return 0;
        }
      }
  return 1;
}
'''
    c = Contract(requires=['__CPROVER_is_fresh(self, sizeof(*self)) && __CPROVER_is_fresh(size, sizeof(*size))', '__exc == 0',
                           'self->_dists.n <= *size && *size <= XT_N && spr_shape(self->_dists, self->_preds, self->_dists.n)'],
                 ensures=[('noexcept', '__exc == 0'),
                          ('square_of_the_requested_size', 'spr_shape(self->_dists, self->_preds, *size)'),
                          ('old_entries_kept_new_pairs_unconstrained', 'spr_grown(%s, %s, %s, self->_dists, self->_preds, *size)' % (OLD('self->_dists'), OLD('self->_preds'), OLD('self->_dists.n'))),
                          ('WITNESS_growth_from_a_non_empty_matrix_is_reachable', '!(%s >= 1 && *size > %s)' % (OLD('self->_dists.n'), OLD('self->_dists.n')))],
                 assigns='__exc, self->_dists, self->_preds')
    return Job('idl.resize', 'smt_idl_theory_resize__U', tus=TUS, contract=c, defines=d, unwind=N + 2, model_unwind=N + 3, spec_headers=['dl_apsp_spec.h'], ghost=GH, exceptions=True,
               caps={'vec_vec_I': N, 'vec_I': N, 'vec_vec_U': N, 'vec_U': N}, abstract_fields={'smt::sat_core': [], 'smt::theory': ['sat'], 'smt::idl_theory': ['n_vars', '_dists', '_preds']},
               timeout=2400, mem_gb=16, mem_est=4, solver='cadical', force_types=['std::vector<std::vector<long>>', 'std::vector<std::vector<unsigned long>>'],
               bounded='matrices of up to %d x %d (old size 0..%d, new size up to %d)' % (N, N, N, N))


def lit_job(tier, c_edge):
    """idl_theory::propagate(const lit &p): p controls the distance constraint dd (to - from <= dist).  With the edge step
    replaced by its (proved) contract: a conflict is reported exactly when the constraint (or, for a false literal, its
    negation from - to <= -dist - 1) closes a negative cycle with the current closure; otherwise the new matrix is exactly the
    closure of the old one plus that edge, the constraint becomes the enforced one of its pair and the APSP invariants are
    kept.  On conflict nothing changes, and the explanation clause is falsified by the current assignment and ends in !p."""
    N = 3
    MC = N * (N - 1)
    d = {'U_BITS': 8, 'I_BITS': 8, 'WIDE_BITS': 16, 'XT_N': N, 'XT_R': 3, 'XT_MC': MC, 'XT_NV': 4}
    PROPE = 'smt_idl_theory_propagate__U__U__I'
    # the callee: everything propagate(from, to, dist) was proved to need and to guarantee (is_fresh / recording clauses dropped)
    ce = Contract(requires=[r for r in c_edge.requires if 'is_fresh' not in r and 'spa_rec' not in r] + ['spa_hops_ok(self->_dists, self->_preds, xt_H)'],
                  ensures=[e for e in c_edge.ensures] + [('hop_count_invariant_kept', 'spa_hops_ok(self->_dists, self->_preds, spa_H_step(%s, self->_dists, xt_H, *from, *to))' % OLD('self->_dists'))],
                  assigns='__exc, self->_dists, self->_preds, self->base_theory.cnfl')
    DD = 'self->var_dists.e[0].second'
    SATP = 'self->base_theory.sat'
    V = '(spl_value(%s->assigns, %s->b) == SPL_TRUE)' % (SATP, DD)
    D0, P0, C0 = OLD('self->_dists'), OLD('self->_preds'), OLD('self->dist_constr')
    F, T, K = '%s->from' % DD, '%s->to' % DD, '%s->dist' % DD
    CONFLICT = '(%s ? %s.e[%s].e[%s] < -%s : %s.e[%s].e[%s] <= %s)' % (V, D0, T, F, K, D0, F, T, K)
    EF, ET, EK = '(%s ? %s : %s)' % (V, F, T), '(%s ? %s : %s)' % (V, T, F), '(I_t)(%s ? %s : -%s - 1)' % (V, K, K)
    IMPROVES = '(%s.e[%s].e[%s] > %s)' % (D0, EF, ET, EK)
    E1 = '(%s ? spa_E_with(xt_E, %s, %s, %s) : xt_E)' % (IMPROVES, EF, ET, EK)
    c = Contract(
        requires=['__CPROVER_is_fresh(self, sizeof(*self)) && __CPROVER_is_fresh(p, sizeof(*p)) && __CPROVER_is_fresh(%s, sizeof(*%s))' % (SATP, SATP),
                  '__exc == 0 && self->n_vars == XT_N && spa_shape(self->_dists, self->_preds)', 'spa_range(self->_dists)', 'spa_closed(self->_dists)',
                  'self->dist_constrs.n == 0 && self->base_theory.cnfl.n == 0 && self->layers.n == 0 && self->listening.n == 0',
                  'spa_E_shape(xt_E) && spa_edges_respected(self->_dists, xt_E) && spa_pred_ok(self->_dists, self->_preds, xt_E)',
                  # the constraint controlled by p, as new_distance creates it: a positive literal of p's variable, two different time points
                  'self->var_dists.n == 1 && self->var_dists.e[0].first == (p->x >> 1) && __CPROVER_is_fresh(%s, sizeof(*%s))' % (DD, DD),
                  '%s < XT_N && %s < XT_N && %s != %s && %s >= -XT_R && %s < XT_R && %s->b.x == (U_t)(((p->x >> 1) << 1) + 1)' % (F, T, F, T, K, K, DD),
                  # p has just been made true
                  'spl_assigns_wf(%s->assigns) && (p->x >> 1) < XT_NV && (p->x >> 1) >= 1 && spl_value(%s->assigns, *p) == SPL_TRUE' % (SATP, SATP),
                  'spl_wf_C(self->dist_constr)',
                  ] + ['(self->dist_constr.n < %d || (__CPROVER_is_fresh(self->dist_constr.e[%d].second, sizeof(*%s)) && (self->dist_constr.e[%d].second->b.x >> 1) < XT_NV))' % (k + 1, k, DD, k) for k in range(MC)] + [
                  # link invariant: every ghost edge is the enforced constraint of its pair, read under the current assignment
                  'spl_link(%s->assigns, self->dist_constr, xt_E)' % SATP,
                  # hop-count invariant (kept by the edge step: job idl.propagate_edge_hops): predecessor rows are trees, so the explanation
                  # walks below terminate within N - 1 hops (lemma idl.hops_imply_walks; here CBMC derives it for this N directly)
                  'spa_hops_ok(self->_dists, self->_preds, xt_H)',
                  'spa_rec(self->_dists, self->_preds, xt_E, %s, %s, %s) && spl_rec(%s->assigns, self->dist_constr, *p)' % (F, T, K, SATP)],
        ensures=[('noexcept', '__exc == 0'),
                 ('conflict_iff_the_constraint_closes_a_negative_cycle', '%s == !%s' % (R, CONFLICT)),
                 ('without_conflict_distances_are_the_exact_closure', '!%s || spa_is_closure_step(%s, self->_dists, %s, %s, %s)' % (R, D0, EF, ET, EK)),
                 ('without_conflict_invariants_kept', '!%s || (spa_closed(self->_dists) && spa_pred_ok(self->_dists, self->_preds, %s) && spa_edges_respected(self->_dists, %s))' % (R, E1, E1)),
                 ('without_conflict_no_clause', '!%s || self->base_theory.cnfl.n == 0' % R),
                 ('constraint_becomes_the_enforced_one_of_its_pair', '!%s || (%s ? spl_C_eq_except(%s, self->dist_constr, %s, %s, %s) : spl_C_eq_except(%s, self->dist_constr, XT_N, XT_N, 0))' % (
                     R, IMPROVES, C0, EF, ET, DD, C0)),
                 ('conflict_changes_nothing', '%s || (spa_D_same(%s, self->_dists) && spa_P_same(%s, self->_preds) && spl_C_eq_except(%s, self->dist_constr, XT_N, XT_N, 0))' % (R, D0, P0, C0)),
                 ('conflict_clause_is_falsified_and_ends_with_not_p', '%s || spl_conflict_clause_ok(%s->assigns, self->base_theory.cnfl, *p)' % (R, SATP)),
                 ('conflict_explanation_is_a_negative_cycle_of_enforced_constraints', '%s || spl_explains(%s->assigns, %s, %s, xt_E, %s, %s, %s, %s, self->base_theory.cnfl, *p)' % (
                     R, SATP, C0, P0, D0, ET, EF, EK)),
                 ('WITNESS_conflict_with_a_two_hop_explanation_is_reachable', '%s || self->base_theory.cnfl.n < 3' % R),
                 ('WITNESS_conflict_on_a_false_literal_is_reachable', '%s || %s' % (R, V)),
                 ('WITNESS_tightening_without_conflict_is_reachable', '!%s || !%s' % (R, IMPROVES)),
                 ('without_conflict_hop_count_invariant_kept', '!%s || spa_hops_ok(self->_dists, self->_preds, spa_H_step(%s, self->_dists, xt_H, %s, %s))' % (R, D0, EF, ET)),
                 ('without_conflict_link_invariant_kept', '!%s || spl_link(%s->assigns, self->dist_constr, %s)' % (R, SATP, E1))],
        assigns='__exc, self->_dists, self->_preds, self->base_theory.cnfl, self->dist_constr')
    caps = {'vec_vec_I': N, 'vec_I': N, 'vec_vec_U': N, 'vec_U': N, 'map_pair_U_U_vec_idl_distancep': 1, 'vec_idl_distancep': 1, 'map_pair_U_U_idl_distancep': MC + 1,
            'vec_lit': N, 'vec_us': 4, 'vec_layer': 1, 'map_pair_U_U_I': 1, 'map_pair_U_U_U': 1, 'umap_U_idl_distancep': 1,
            'umap_U_set_idl_value_listenerp': 1, 'set_idl_value_listenerp': 1}
    return Job('idl.propagate_lit', 'smt_idl_theory_propagate__lit', tus=TUS, contract=c, defines=d, unwind=N + 2, model_unwind=12,
               spec_headers=['dl_apsp_spec.h', 'dl_lit_spec.h'], callee_contracts={PROPE: ce}, replace=[PROPE], exceptions=True,
               caps=caps, abstract_fields=dict(ABS, **{'smt::idl_theory': ABS['smt::idl_theory'] + ['var_dists']}), timeout=3000, mem_gb=24, mem_est=6, solver='cadical',
               force_types=['std::vector<std::vector<long>>', 'std::vector<std::vector<unsigned long>>'],
               replay={'driver': 'dl', 'stanza': LIT_REPLAY},
               bounded='%d time points, weights in [-3, 3] (the constraint of p in [-3, 2] so that its negation is in range too); <= %d enforced constraints before the call; root level (no open undo layer); no registered constraints to re-propagate' % (N, MC))


LIT_REPLAY = '''  const int n = XT_N; sat_core sat; long xinf = 62;
  for (int v = 1; v < XT_NV; v++) sat.new_var();
  idl_theory *th = build_idl(sat, n, xinf);
  for (int v = 0; v < XT_NV; v++) sat.assigns[v] = (lbool)S[400 + v];
  lit p; p.x = (size_t)S[4];
  size_t from = S[1], to = S[2]; I dist = S[3];
  auto *dd = new idl_theory::idl_distance(lit(variable(p)), from, to, dist);
  th->var_dists.emplace(variable(p), dd);
  for (long k = 0; k < S[500]; k++) { lit b; b.x = (size_t)S[512 + 6 * k]; th->dist_constr[{(size_t)S[510 + 6 * k], (size_t)S[511 + 6 * k]}] = new idl_theory::idl_distance(b, S[513 + 6 * k], S[514 + 6 * k], S[515 + 6 * k]); }
  std::vector<std::vector<I>> D0 = th->_dists; auto P0 = th->_preds; auto C0 = th->dist_constr;
  bool V = sat.value(dd->b) == True;
  bool conflict = V ? D0[to][from] < -dist : D0[from][to] <= dist;
  size_t ef = V ? from : to, et = V ? to : from; I ek = V ? dist : -dist - 1;
  bool ret = th->propagate(p);
  std::string why;
  if (ret != !conflict) { ok = false; why += " returned " + std::to_string(ret) + " but the constraint " + (conflict ? "closes" : "does not close") + " a negative cycle;"; }
  if (ret) {
    for (int i = 0; i < n; i++) for (int j = 0; j < n; j++) {
      I best = D0[i][j];
      if (D0[i][ef] != idl_theory::inf() && D0[et][j] != idl_theory::inf() && D0[i][ef] + ek + D0[et][j] < best) best = D0[i][ef] + ek + D0[et][j];
      if (th->_dists[i][j] != best) { ok = false; why += " D[" + std::to_string(i) + "][" + std::to_string(j) + "]=" + std::to_string(th->_dists[i][j]) + " is not the closure (" + std::to_string(best) + ");"; } }
    if (!th->cnfl.empty()) { ok = false; why += " a clause was produced without conflict;"; }
    if (D0[ef][et] > ek) { auto it = th->dist_constr.find({ef, et}); if (it == th->dist_constr.end() || it->second != dd) { ok = false; why += " the constraint is not the enforced one of its pair;"; } }
    else if (th->dist_constr != C0) { ok = false; why += " the enforced constraints changed although nothing was tightened;"; }
  } else {
    if (th->_dists != D0 || th->_preds != P0 || th->dist_constr != C0) { ok = false; why += " a conflict changed the theory's state;"; }
    if (th->cnfl.empty() || th->cnfl.back() != !p) { ok = false; why += " the explanation does not end with !p;"; }
    for (auto &l : th->cnfl) if (sat.value(l) != False) { ok = false; why += " explanation literal " + to_string(l) + " is not false;"; }
  }
  observed = show_matrix(th->_dists, n) + " ret=" + std::to_string(ret) + why; required = "conflict iff negative cycle; otherwise the exact closure with the constraint enforced";
'''


# what the evidence file says is NOT decided by this module, and what it assumes
INFO = {'not_under_contract': ['rdl_theory', 'idl_theory::check(), the re-propagation of registered undecided constraints after an edge step', 'pop (covered under C08)'], 'assumptions': [ 'link invariant (every ghost edge is the enforced constraint of its pair) holds initially: it is kept by propagate(const lit&), restored with the snapshot by pop']}
