"""C15 — rational / inf_rational / lin arithmetic is exact: contracts keyed by extracted function (DESIGN §5/C15).

Every postcondition is the property's statement over the mathematical *view* (arith_spec.h), not a restatement of the code.
Slots recorded for replay: 0,1 = *self (num, den); 2,3 = rational rhs; 4 = integer rhs; 5 = integer lhs; 6,7 = ctor n,d."""
from vlib.engine import Contract, Job, Known

RAT_TUS = ['smt/arith/rational.cpp']
SPEC = ['arith_spec.h']

FRESH_SELF = '__CPROVER_is_fresh(self, sizeof(*self))'
FRESH_RHS = '__CPROVER_is_fresh(rhs, sizeof(*rhs))'
FRESH_LHS = '__CPROVER_is_fresh(lhs, sizeof(*lhs))'
REC_SELF = 'xt_rec(0, self->num) && xt_rec(1, self->den)'
REC_RHS_R = 'xt_rec(2, rhs->num) && xt_rec(3, rhs->den)'
REC_RHS_I = 'xt_rec(4, *rhs)'
REC_LHS_I = 'xt_rec(5, *lhs)'
WF_SELF = 'in_range(*self) && wf_rat(*self)'
WF_RHS = 'in_range(*rhs) && wf_rat(*rhs)'

CMP = {'lt': '<', 'le': '<=', 'eq': '==', 'ge': '>=', 'gt': '>', 'ne': '!='}
CPPOP = {'add': '+', 'sub': '-', 'mul': '*', 'div': '/'}
REL = {'add': 'rat_is_sum', 'sub': 'rat_is_diff', 'mul': 'rat_is_prod', 'div': 'rat_is_quot'}

# operand combinations for which the operation is undefined (the code asserts / documents them away)
UNDEF = {
    'add': '(sp_is_pinf(A) && sp_is_ninf(B)) || (sp_is_ninf(A) && sp_is_pinf(B))',
    'sub': '(sp_is_pinf(A) && sp_is_pinf(B)) || (sp_is_ninf(A) && sp_is_ninf(B))',
    'mul': '(A.num == 0 && sp_is_inf(B)) || (sp_is_inf(A) && B.num == 0)',
    'div': '(sp_is_inf(A) && sp_is_inf(B)) || (A.num == 0 && B.num == 0)',
}


def undef(op, a, b):
    return '!(' + UNDEF[op].replace('A', a).replace('B', b) + ')'


def rat_replay(stanza):
    return {'driver': 'arith', 'stanza': stanza}


MK_SELF = '  smt::rational a = mk_rat(S[0], S[1]);\n'
MK_RHS_R = '  smt::rational b = mk_rat(S[2], S[3]);\n'


def jobs(tier):
    W, bits, unwind = (3, 16, 12) if tier == 'quick' else (4, 24, 16)
    defines = {'I_BITS': bits, 'SPEC_W': W}
    bounded = 'operands |num|,den < 2^%d (machine width %d, overflow checks on); Euclid loops unwound %d with unwinding assertions' % (W, bits, unwind)
    out = []

    def J(name, target, contract, replay=None, known=(), **kw):
        out.append(Job('rational.' + name, target, tus=RAT_TUS, contract=contract, defines=defines, unwind=unwind, spec_headers=SPEC,
                       replay=rat_replay(replay) if replay else None, known=known, bounded=bounded, timeout=1800, **kw))

    # ---- comparisons against rational: a total order  -inf < finite < +inf consistent with the values
    for op, c in CMP.items():
        J('op_%s__rational' % op, 'smt_rational_op_%s__rational' % op,
          Contract(requires=[FRESH_SELF + ' && ' + FRESH_RHS, REC_SELF + ' && ' + REC_RHS_R, 'in_range(*self) && in_range(*rhs)',
                             'wf_rat(*self) && wf_rat(*rhs)'],
                   ensures=[('order', '__CPROVER_return_value == (sp_cmp(*self, *rhs) %s 0)' % c)], assigns=''),
          replay=MK_SELF + MK_RHS_R + '  bool r = a %s b; bool want = sp_cmp(view(a), view(b)) %s 0;\n  ok = (r == want); observed = std::to_string(r); required = std::to_string(want) + " for " + show(a) + " %s " + show(b);\n' % (c, c, c))
        J('op_%s__I' % op, 'smt_rational_op_%s__I' % op,
          Contract(requires=[FRESH_SELF + ' && ' + FRESH_RHS, REC_SELF + ' && ' + REC_RHS_I, 'in_range(*self) && in_range_I(*rhs)', 'wf_rat(*self)'],
                   ensures=[('order', '__CPROVER_return_value == (sp_cmp(*self, sp_of_int(*rhs)) %s 0)' % c)], assigns=''),
          replay=MK_SELF + '  long b = S[4]; bool r = a %s b; bool want = sp_cmp(view(a), sp_of_int(b)) %s 0;\n  ok = (r == want); observed = std::to_string(r); required = std::to_string(want) + " for " + show(a) + " %s " + std::to_string(b);\n' % (c, c, c))

    # ---- binary arithmetic
    for op, c in CPPOP.items():
        rel = REL[op]
        J('op_%s__rational' % op, 'smt_rational_op_%s__rational' % op,
          Contract(requires=[FRESH_SELF + ' && ' + FRESH_RHS, REC_SELF + ' && ' + REC_RHS_R, 'in_range(*self) && in_range(*rhs)',
                             'wf_rat(*self) && wf_rat(*rhs)', undef(op, '(*self)', '(*rhs)')],
                   ensures=[('canonical', 'wf_rat(__CPROVER_return_value)'), ('value', '%s(__CPROVER_return_value, *self, *rhs)' % rel)], assigns=''),
          replay=MK_SELF + MK_RHS_R + '  smt::rational r = a %s b;\n  ok = wf_rat(view(r)) && %s(view(r), view(a), view(b)); observed = show(r); required = show(a) + " %s " + show(b) + " exactly, canonical";\n' % (c, rel, c))
        J('op_%s__I' % op, 'smt_rational_op_%s__I' % op,
          Contract(requires=[FRESH_SELF + ' && ' + FRESH_RHS, REC_SELF + ' && ' + REC_RHS_I, 'in_range(*self) && in_range_I(*rhs)', 'wf_rat(*self)',
                             undef(op, '(*self)', 'sp_of_int(*rhs)')],
                   ensures=[('canonical', 'wf_rat(__CPROVER_return_value)'), ('value', '%s(__CPROVER_return_value, *self, sp_of_int(*rhs))' % rel)], assigns=''),
          replay=MK_SELF + '  long b = S[4]; smt::rational r = a %s b;\n  ok = wf_rat(view(r)) && %s(view(r), view(a), sp_of_int(b)); observed = show(r); required = show(a) + " %s " + std::to_string(b) + " exactly, canonical";\n' % (c, rel, c))
        J('op_%s__I__rational' % op, 'smt_op_%s__I__rational' % op,
          Contract(requires=[FRESH_LHS + ' && ' + FRESH_RHS, REC_LHS_I + ' && ' + REC_RHS_R, 'in_range_I(*lhs) && in_range(*rhs)', 'wf_rat(*rhs)',
                             undef(op, 'sp_of_int(*lhs)', '(*rhs)')],
                   ensures=[('canonical', 'wf_rat(__CPROVER_return_value)'), ('value', '%s(__CPROVER_return_value, sp_of_int(*lhs), *rhs)' % rel)], assigns=''),
          replay=MK_RHS_R + '  long a = S[5]; smt::rational r = a %s b;\n  ok = wf_rat(view(r)) && %s(view(r), sp_of_int(a), view(b)); observed = show(r); required = std::to_string(a) + " %s " + show(b) + " exactly, canonical";\n' % (c, rel, c))
        # compound assignment: *self becomes the binary result, the reference returned is self, nothing else is written
        J('op_%seq__rational' % op, 'smt_rational_op_%seq__rational' % op,
          Contract(requires=[FRESH_SELF + ' && ' + FRESH_RHS, REC_SELF + ' && ' + REC_RHS_R, 'in_range(*self) && in_range(*rhs)',
                             'wf_rat(*self) && wf_rat(*rhs)', undef(op, '(*self)', '(*rhs)')],
                   ensures=[('canonical', 'wf_rat(*self)'), ('value', '%s(*self, __CPROVER_old(*self), *rhs)' % rel),
                            ('returns_self', '__CPROVER_return_value == self')], assigns='self->num, self->den'),
          replay=MK_SELF + MK_RHS_R + '  smt::rational a0 = a; smt::rational &rr = (a %s= b);\n  ok = wf_rat(view(a)) && %s(view(a), view(a0), view(b)) && &rr == &a; observed = show(a); required = show(a0) + " %s= " + show(b) + " exactly, canonical";\n' % (c, rel, c))
        J('op_%seq__I' % op, 'smt_rational_op_%seq__I' % op,
          Contract(requires=[FRESH_SELF + ' && ' + FRESH_RHS, REC_SELF + ' && ' + REC_RHS_I, 'in_range(*self) && in_range_I(*rhs)', 'wf_rat(*self)',
                             undef(op, '(*self)', 'sp_of_int(*rhs)')],
                   ensures=[('canonical', 'wf_rat(*self)'), ('value', '%s(*self, __CPROVER_old(*self), sp_of_int(*rhs))' % rel),
                            ('returns_self', '__CPROVER_return_value == self')], assigns='self->num, self->den'),
          replay=MK_SELF + '  long b = S[4]; smt::rational a0 = a; smt::rational &rr = (a %s= b);\n  ok = wf_rat(view(a)) && %s(view(a), view(a0), sp_of_int(b)) && &rr == &a; observed = show(a); required = show(a0) + " %s= " + std::to_string(b) + " exactly, canonical";\n' % (c, rel, c))

    # ---- unary minus
    J('op_neg', 'smt_rational_op_sub',
      Contract(requires=[FRESH_SELF, REC_SELF, WF_SELF],
               ensures=[('canonical', 'wf_rat(__CPROVER_return_value)'),
                        ('value', '__CPROVER_return_value.num == -self->num && __CPROVER_return_value.den == self->den')], assigns=''),
      replay=MK_SELF + '  smt::rational r = -a; ok = r.num == -a.num && r.den == a.den; observed = show(r); required = "-(" + show(a) + ")";\n')

    # ---- constructors / normalisation: canonical form for every (n, d) except 0/0
    J('ctor', 'smt_rational_ctor', Contract(ensures=[('zero', '__CPROVER_return_value.num == 0 && __CPROVER_return_value.den == 1')], assigns=''))
    J('ctor__I', 'smt_rational_ctor__I',
      Contract(requires=['xt_rec(6, n)', 'in_range_I(n)'], ensures=[('value', '__CPROVER_return_value.num == n && __CPROVER_return_value.den == 1')], assigns=''),
      replay='  smt::rational r(S[6]); ok = r.num == S[6] && r.den == 1; observed = show(r); required = std::to_string(S[6]) + "/1";\n')
    J('ctor__I__I', 'smt_rational_ctor__I__I',
      Contract(requires=['xt_rec(6, n) && xt_rec(7, d)', 'in_range_I(n) && in_range_I(d)', '!(n == 0 && d == 0)'],
               ensures=[('canonical', 'wf_rat(__CPROVER_return_value)'), ('value', 'sp_is_frac(__CPROVER_return_value, n, d)')], assigns=''),
      replay='  smt::rational r(S[6], S[7]); ok = wf_rat(view(r)) && sp_is_frac(view(r), S[6], S[7]); observed = show(r); required = "canonical form of " + std::to_string(S[6]) + "/" + std::to_string(S[7]);\n')
    J('normalize', 'smt_rational_normalize',
      Contract(requires=[FRESH_SELF, REC_SELF, 'in_range_I(self->num) && in_range_I(self->den)', '!(self->num == 0 && self->den == 0)'],
               ensures=[('canonical', 'wf_rat(*self)'), ('value', 'sp_is_frac(*self, __CPROVER_old(self->num), __CPROVER_old(self->den))')],
               assigns='self->num, self->den'),
      replay=MK_SELF + '  smt::rational a0 = a; a.normalize(); ok = wf_rat(view(a)) && sp_is_frac(view(a), a0.num, a0.den); observed = show(a); required = "canonical form of " + show(a0);\n')

    # ---- predicates and accessors
    preds = {'is_zero': 'sp_cmp(*rhs, sp_of_int(0)) == 0', 'is_positive': 'sp_cmp(*rhs, sp_of_int(0)) > 0',
             'is_positive_or_zero': 'sp_cmp(*rhs, sp_of_int(0)) >= 0', 'is_negative': 'sp_cmp(*rhs, sp_of_int(0)) < 0',
             'is_negative_or_zero': 'sp_cmp(*rhs, sp_of_int(0)) <= 0', 'is_infinite': 'sp_is_inf(*rhs)',
             'is_positive_infinite': 'sp_is_pinf(*rhs)', 'is_negative_infinite': 'sp_is_ninf(*rhs)',
             'is_integer': '(!sp_is_inf(*rhs) && rhs->num % rhs->den == 0)'}
    for p, e in preds.items():
        J(p, 'smt_%s__rational' % p,
          Contract(requires=[FRESH_RHS, REC_RHS_R, WF_RHS], ensures=[('meaning', '__CPROVER_return_value == (%s)' % e)], assigns=''),
          replay=MK_RHS_R + '  smt_rational v = view(b); smt_rational *rhs = &v; bool r = %s(b); bool want = (%s); ok = r == want; observed = std::to_string(r); required = std::to_string(want) + " for %s(" + show(b) + ")";\n' % (p, e, p))
    J('numerator', 'smt_rational_numerator', Contract(requires=[FRESH_SELF], ensures=[('value', '__CPROVER_return_value == self->num')], assigns=''))
    J('denominator', 'smt_rational_denominator', Contract(requires=[FRESH_SELF], ensures=[('value', '__CPROVER_return_value == self->den')], assigns=''))
    # composite (component-wise) operations: one magnitude step below the kernel in the quick tier
    # both tiers: at the kernel's thorough width (W=4 / 24 bit) eleven of the composite inf_rational jobs and the lin add/sub jobs ran into
    # the solver timeout in this sandbox, so the thorough tier widens the rational kernel only
    Wi, bi = (2, 8)
    inf_jobs(out, tier, dict(defines, SPEC_W=Wi, I_BITS=bi), 12, bounded.replace('2^%d' % W, '2^%d' % Wi).replace('width %d' % bits, 'width %d' % bi))
    lin_jobs(out, tier, defines, unwind, bounded)
    return out


# ================================================================================================ inf_rational
INF_TUS = ['/verif/stubs/tu/inf_rational.cpp', 'smt/arith/rational.cpp']
ISPEC = ['infrat_spec.h']
REC_ISELF = 'xt_rec(0, self->rat.num) && xt_rec(1, self->rat.den) && xt_rec(8, self->inf.num) && xt_rec(9, self->inf.den)'
REC_IRHS = 'xt_rec(2, rhs->rat.num) && xt_rec(3, rhs->rat.den) && xt_rec(10, rhs->inf.num) && xt_rec(11, rhs->inf.den)'
REC_LHS_R = 'xt_rec(12, lhs->num) && xt_rec(13, lhs->den)'
WFI_SELF = 'in_range_inf(*self) && wf_inf(*self)'
WFI_RHS = 'in_range_inf(*rhs) && wf_inf(*rhs)'
MK_ISELF = '  smt::inf_rational a = mk_inf(S[0], S[1], S[8], S[9]);\n'
MK_IRHS = '  smt::inf_rational b = mk_inf(S[2], S[3], S[10], S[11]);\n'


def inf_jobs(out, tier, defines, unwind, bounded):
    def J(name, target, contract, replay=None, known=(), **kw):
        out.append(Job('inf_rational.' + name, target, tus=INF_TUS, contract=contract, defines=defines, unwind=unwind, spec_headers=ISPEC,
                       replay=rat_replay(replay) if replay else None, known=known, bounded=bounded, timeout=1800, **kw))

    # rhs kinds: (suffix, fresh, rec, range+wf, view-as-inf expr, view-as-rat expr, replay decl, replay view-as-inf, replay show)
    RH = {
        'inf_rational': (FRESH_RHS, REC_IRHS, WFI_RHS, '(*rhs)', None, MK_IRHS, 'view(b)', 'show(b)'),
        'rational': (FRESH_RHS, REC_RHS_R, WF_RHS, 'sp_inf_of_rat(*rhs)', '(*rhs)', MK_RHS_R, 'sp_inf_of_rat(view(b))', 'show(b)'),
        'I': (FRESH_RHS, REC_RHS_I, 'in_range_I(*rhs)', 'sp_inf_of_int(*rhs)', 'sp_of_int(*rhs)', '  long b = S[4];\n', 'sp_inf_of_int(b)', 'std::to_string(b)'),
    }
    for op, c in CMP.items():
        for suf, (fr, rec, wf, vinf, vrat, mk, rvinf, rshow) in RH.items():
            J('op_%s__%s' % (op, suf), 'smt_inf_rational_op_%s__%s' % (op, suf),
              Contract(requires=[FRESH_SELF + ' && ' + fr, REC_ISELF + ' && ' + rec, WFI_SELF, wf],
                       ensures=[('order', '__CPROVER_return_value == (sp_cmp_inf(*self, %s) %s 0)' % (vinf, c))], assigns=''),
              replay=MK_ISELF + mk + '  bool r = a %s b; bool want = sp_cmp_inf(view(a), %s) %s 0;\n  ok = (r == want); observed = std::to_string(r); required = std::to_string(want) + " for " + show(a) + " %s " + %s;\n' % (c, rvinf, c, c, rshow))

    def both(rel, res, a, b_rat, b_inf):
        return '%s(%s.rat, %s.rat, %s) && %s(%s.inf, %s.inf, %s)' % (rel, res, a, b_rat, rel, res, a, b_inf)

    for op, c in CPPOP.items():
        rel = REL[op]
        additive = op in ('add', 'sub')
        for suf, (fr, rec, wf, vinf, vrat, mk, rvinf, rshow) in RH.items():
            if suf == 'inf_rational' and not additive:
                continue      # inf_rational * inf_rational and / are not offered by the class
            if suf == 'inf_rational':
                pre = [undef(op, 'self->rat', 'rhs->rat')]
                post = lambda res, old: both(rel, res, old, 'rhs->rat', 'rhs->inf')
                rpost = lambda res, old: '%s(view(%s).rat, view(%s).rat, view(b).rat) && %s(view(%s).inf, view(%s).inf, view(b).inf)' % (rel, res, old, rel, res, old)
            elif additive:
                pre = [undef(op, 'self->rat', vrat)]
                post = lambda res, old, vrat=vrat: '%s(%s.rat, %s.rat, %s) && sp_rat_identical(%s.inf, %s.inf)' % (rel, res, old, vrat, res, old)
                rv = 'view(b)' if suf == 'rational' else 'sp_of_int(b)'
                rpost = lambda res, old, rv=rv: '%s(view(%s).rat, view(%s).rat, %s) && sp_rat_identical(view(%s).inf, view(%s).inf)' % (rel, res, old, rv, res, old)
            else:
                pre = [undef(op, 'self->rat', vrat), undef(op, 'self->inf', vrat)]
                post = lambda res, old, vrat=vrat: both(rel, res, old, vrat, vrat)
                rv = 'view(b)' if suf == 'rational' else 'sp_of_int(b)'
                rpost = lambda res, old, rv=rv: '%s(view(%s).rat, view(%s).rat, %s) && %s(view(%s).inf, view(%s).inf, %s)' % (rel, res, old, rv, rel, res, old, rv)
            J('op_%s__%s' % (op, suf), 'smt_inf_rational_op_%s__%s' % (op, suf),
              Contract(requires=[FRESH_SELF + ' && ' + fr, REC_ISELF + ' && ' + rec, WFI_SELF, wf] + pre,
                       ensures=[('canonical', 'wf_rat(__CPROVER_return_value.rat) && wf_rat(__CPROVER_return_value.inf)'),
                                ('value', post('__CPROVER_return_value', '(*self)'))], assigns=''),
              replay=MK_ISELF + mk + '  smt::inf_rational r = a %s b;\n  ok = wf_rat(view(r).rat) && wf_rat(view(r).inf) && %s; observed = show(r); required = show(a) + " %s " + %s + " component-wise";\n' % (c, rpost('r', 'a'), c, rshow))
            J('op_%seq__%s' % (op, suf), 'smt_inf_rational_op_%seq__%s' % (op, suf),
              Contract(requires=[FRESH_SELF + ' && ' + fr, REC_ISELF + ' && ' + rec, WFI_SELF, wf] + pre,
                       ensures=[('canonical', 'wf_rat(self->rat) && wf_rat(self->inf)'),
                                ('value', post('(*self)', '__CPROVER_old(*self)')), ('returns_self', '__CPROVER_return_value == self')],
                       assigns='self->rat.num, self->rat.den, self->inf.num, self->inf.den'),
              replay=MK_ISELF + mk + '  smt::inf_rational a0 = a; smt::inf_rational &rr = (a %s= b);\n  ok = wf_rat(view(a).rat) && wf_rat(view(a).inf) && &rr == &a && %s; observed = show(a); required = show(a0) + " %s= " + %s + " component-wise";\n' % (c, rpost('a', 'a0'), c, rshow))

    # ---- friends:  (rational | I) op inf_rational
    LH = {'rational': (FRESH_LHS, REC_LHS_R, 'in_range(*lhs) && wf_rat(*lhs) && !sp_is_inf(*lhs)', '(*lhs)', '  smt::rational a = mk_rat(S[12], S[13]);\n', 'view(a)', 'show(a)'),
          'I': (FRESH_LHS, REC_LHS_I, 'in_range_I(*lhs)', 'sp_of_int(*lhs)', '  long a = S[5];\n', 'sp_of_int(a)', 'std::to_string(a)')}
    for suf, (fl, rec, wf, vl, mk, rvl, lshow) in LH.items():
        R = '__CPROVER_return_value'
        posts = {
            'add': ('rat_is_sum(%s.rat, %s, rhs->rat) && sp_rat_identical(%s.inf, rhs->inf)' % (R, vl, R), [undef('add', vl, 'rhs->rat')],
                    'rat_is_sum(view(r).rat, %s, view(b).rat) && sp_rat_identical(view(r).inf, view(b).inf)' % rvl),
            'sub': ('rat_is_diff(%s.rat, %s, rhs->rat) && sp_rat_identical(%s.inf, sp_neg(rhs->inf))' % (R, vl, R), [undef('sub', vl, 'rhs->rat')],
                    'rat_is_diff(view(r).rat, %s, view(b).rat) && sp_rat_identical(view(r).inf, sp_neg(view(b).inf))' % rvl),
            'mul': ('rat_is_prod(%s.rat, %s, rhs->rat) && rat_is_prod(%s.inf, %s, rhs->inf)' % (R, vl, R, vl), [undef('mul', vl, 'rhs->rat')],
                    'rat_is_prod(view(r).rat, %s, view(b).rat) && rat_is_prod(view(r).inf, %s, view(b).inf)' % (rvl, rvl)),
            # c / (a + b*eps) = c/a - (c*b/a^2) eps to first order; exactly c/a + 0 eps when b == 0
            'div': ('rat_is_quot(%s.rat, %s, rhs->rat) && sp_is_recip_inf_part(%s.inf, %s, rhs->rat, rhs->inf)' % (R, vl, R, vl),
                    ['!sp_is_inf(rhs->rat) && rhs->rat.num != 0'],
                    'rat_is_quot(view(r).rat, %s, view(b).rat) && sp_is_recip_inf_part(view(r).inf, %s, view(b).rat, view(b).inf)' % (rvl, rvl)),
        }
        for op, c in CPPOP.items():
            post, pre, rpost = posts[op]
            J('op_%s__%s__inf_rational' % (op, suf), 'smt_op_%s__%s__inf_rational' % (op, suf),
              Contract(requires=[fl + ' && ' + FRESH_RHS, rec + ' && ' + REC_IRHS, wf, WFI_RHS] + pre,
                       ensures=[('canonical', 'wf_rat(%s.rat) && wf_rat(%s.inf)' % (R, R)), ('value', post)], assigns=''),
              replay=mk + MK_IRHS + '  smt::inf_rational r = a %s b;\n  ok = wf_rat(view(r).rat) && wf_rat(view(r).inf) && %s; observed = show(r); required = %s + " %s (" + show(b) + ") exactly";\n' % (c, rpost, lshow, c))

    J('op_neg', 'smt_inf_rational_op_sub',
      Contract(requires=[FRESH_SELF, REC_ISELF, WFI_SELF],
               ensures=[('value', 'sp_rat_identical(__CPROVER_return_value.rat, sp_neg(self->rat)) && sp_rat_identical(__CPROVER_return_value.inf, sp_neg(self->inf))')], assigns=''),
      replay=MK_ISELF + '  smt::inf_rational r = -a; ok = sp_rat_identical(view(r).rat, sp_neg(view(a).rat)) && sp_rat_identical(view(r).inf, sp_neg(view(a).inf)); observed = show(r); required = "-(" + show(a) + ")";\n')

    # ---- constructors and accessors
    R = '__CPROVER_return_value'
    J('ctor__I', 'smt_inf_rational_ctor__I', Contract(requires=['in_range_I(nun)'], ensures=[('value', '%s.rat.num == nun && %s.rat.den == 1 && %s.inf.num == 0 && %s.inf.den == 1' % (R, R, R, R))], assigns=''))
    J('ctor__I__I', 'smt_inf_rational_ctor__I__I',
      Contract(requires=['in_range_I(nun) && in_range_I(den)', '!(nun == 0 && den == 0)'],
               ensures=[('value', 'wf_rat(%s.rat) && sp_is_frac(%s.rat, nun, den) && %s.inf.num == 0 && %s.inf.den == 1' % (R, R, R, R))], assigns=''))
    J('ctor__rational', 'smt_inf_rational_ctor__rational',
      Contract(requires=['__CPROVER_is_fresh(rat, sizeof(*rat))'], ensures=[('value', 'sp_rat_identical(%s.rat, *rat) && %s.inf.num == 0 && %s.inf.den == 1' % (R, R, R))], assigns=''))
    J('ctor__rational__I', 'smt_inf_rational_ctor__rational__I',
      Contract(requires=['__CPROVER_is_fresh(rat, sizeof(*rat))', 'in_range_I(inf)'], ensures=[('value', 'sp_rat_identical(%s.rat, *rat) && %s.inf.num == inf && %s.inf.den == 1' % (R, R, R))], assigns=''))
    J('ctor__rational__rational', 'smt_inf_rational_ctor__rational__rational',
      Contract(requires=['__CPROVER_is_fresh(rat, sizeof(*rat)) && __CPROVER_is_fresh(inf, sizeof(*inf))'],
               ensures=[('value', 'sp_rat_identical(%s.rat, *rat) && sp_rat_identical(%s.inf, *inf)' % (R, R))], assigns=''))
    J('get_rational', 'smt_inf_rational_get_rational', Contract(requires=[FRESH_SELF], ensures=[('value', 'sp_rat_identical(%s, self->rat)' % R)], assigns=''))
    J('get_infinitesimal', 'smt_inf_rational_get_infinitesimal', Contract(requires=[FRESH_SELF], ensures=[('value', 'sp_rat_identical(%s, self->inf)' % R)], assigns=''))
    zero = 'sp_inf_of_int(0)'
    preds = {'is_zero': 'sp_cmp_inf(*rhs, %s) == 0' % zero, 'is_positive': 'sp_cmp_inf(*rhs, %s) > 0' % zero,
             'is_positive_or_zero': 'sp_cmp_inf(*rhs, %s) >= 0' % zero, 'is_negative': 'sp_cmp_inf(*rhs, %s) < 0' % zero,
             'is_negative_or_zero': 'sp_cmp_inf(*rhs, %s) <= 0' % zero, 'is_infinite': 'sp_is_inf(rhs->rat)',
             'is_positive_infinite': 'sp_is_pinf(rhs->rat)', 'is_negative_infinite': 'sp_is_ninf(rhs->rat)'}
    for p, e in preds.items():
        J(p, 'smt_%s__inf_rational' % p,
          Contract(requires=[FRESH_RHS, REC_IRHS, WFI_RHS], ensures=[('meaning', '__CPROVER_return_value == (%s)' % e)], assigns=''),
          replay=MK_IRHS + '  smt_inf_rational v = view(b); smt_inf_rational *rhs = &v; bool r = %s(b); bool want = (%s); ok = r == want; observed = std::to_string(r); required = std::to_string(want) + " for %s(" + show(b) + ")";\n' % (p, e, p))


# ================================================================================================ lin
LIN_TUS = ['smt/arith/lin.cpp', 'smt/arith/rational.cpp']
LSPEC = ['lin_spec.h']
GHOST_V = 'U_t xt_gv;'
HPRE = '  { U_t gv; xt_gv = gv; }'
LR = '__CPROVER_return_value'


def lin_jobs(out, tier, defines, unwind, bounded):
    LMAX = 2
    Wl, bl = (2, 8)
    ldef = dict(defines, LIN_MAX=LMAX, SPEC_W=Wl, I_BITS=bl, U_BITS=8)
    bounded = 'operands |num|,den < 2^%d (machine width %d, overflow checks on); variable ids 8-bit' % (Wl, bl)
    lb = bounded + '; lin operands with <= %d terms (map model capacity %d)' % (LMAX, 2 * LMAX)

    def J(name, target, contract, replay=None, known=(), **kw):
        out.append(Job('lin.' + name, target, tus=LIN_TUS, contract=contract, defines=ldef, unwind=8, spec_headers=LSPEC,
                       replay=rat_replay(replay) if replay else None, known=known, bounded=lb, timeout=3000, exceptions=True,
                       caps={'map': 2 * LMAX}, ghost=GHOST_V, harness_pre=HPRE, **kw))

    FR_SELF = '__CPROVER_is_fresh(self, sizeof(*self))'
    FR_RIGHT = '__CPROVER_is_fresh(right, sizeof(*right))'
    WFL_SELF = 'lin_shape(*self) && in_range_lin(*self) && wf_lin(*self)'
    REC_GV = 'xt_recu(90, (unsigned long)xt_gv)'
    NOEXC = ('noexcept', '__exc == 0')
    MKA, MKB = '  smt::lin a = mk_lin(100);\n', '  smt::lin b = mk_lin(130);\n'
    MKR = '  smt::rational b = mk_rat(S[2], S[3]);\n'

    def coeffwise(rel, res, a, b, b_is_lin):
        bc = 'sp_coeff(%s, xt_gv)' % b if b_is_lin else b
        bk = '%s.known_term' % b if b_is_lin else b
        return [('coefficient', '%s(sp_coeff2(%s, xt_gv), sp_coeff(%s, xt_gv), %s)' % (rel, res, a, bc)),
                ('constant_term', '%s(%s.known_term, %s.known_term, %s)' % (rel, res, a, bk))]

    # ---- lin (+|-) lin, binary and compound
    for op, c in (('add', '+'), ('sub', '-')):
        rel = REL[op]
        pre = [FR_SELF + ' && ' + FR_RIGHT, '__exc == 0', 'lin_shape(*self) && lin_shape(*right)', 'in_range_lin(*self) && in_range_lin(*right)', 'wf_lin(*self) && wf_lin(*right)',
               'sp_lin_rec(100, *self) && sp_lin_rec(130, *right) && ' + REC_GV]
        rchk = ('lin_coeffs_wf(RES) && lin_all_vars(RES, a0, b, [&](smt::var v) { return %s(view(coeff(RES, v)), view(coeff(a0, v)), view(coeff(b, v))); }) && '
                '%s(view(RES.known_term), view(a0.known_term), view(b.known_term))' % (rel, rel))
        J('op_%s__lin' % op, 'smt_lin_op_%s__lin' % op,
          Contract(requires=pre, ensures=[NOEXC, ('wf', 'wf_lin_res(%s, %d)' % (LR, 2 * LMAX))] + coeffwise(rel, LR, '(*self)', '(*right)', True), assigns='__exc'),
          replay=MKA + MKB + '  smt::lin a0 = a; smt::lin r = a %s b;\n  ok = %s; observed = show(r); required = "(" + show(a) + ") %s (" + show(b) + ") coefficient-wise";\n' % (c, rchk.replace('RES', 'r'), c))
        J('op_%seq__lin' % op, 'smt_lin_op_%seq__lin' % op,
          Contract(requires=pre, ensures=[NOEXC, ('wf', 'wf_lin_res(*self, %d)' % (2 * LMAX))] + coeffwise(rel, '(*self)', '__CPROVER_old(*self)', '(*right)', True) +
                   [('returns_copy', 'sp_rat_identical(sp_coeff2(%s, xt_gv), sp_coeff2(*self, xt_gv)) && sp_rat_identical(%s.known_term, self->known_term)' % (LR, LR))],
                   assigns='__exc, *self'),
          replay=MKA + MKB + '  smt::lin a0 = a; a %s= b;\n  ok = %s; observed = show(a); required = "(" + show(a0) + ") %s= (" + show(b) + ") coefficient-wise";\n' % (c, rchk.replace('RES', 'a'), c))

    # ---- lin op rational
    for op, c in CPPOP.items():
        rel = REL[op]
        pre = [FR_SELF + ' && ' + FR_RIGHT, '__exc == 0', WFL_SELF, 'in_range(*right) && wf_rat(*right) && !sp_is_inf(*right)',
               'sp_lin_rec(100, *self) && xt_rec(2, right->num) && xt_rec(3, right->den) && ' + REC_GV]
        if op == 'div':
            pre.append('right->num != 0')
        if op in ('add', 'sub'):
            post = lambda res, a: [('coefficient', 'sp_rat_identical(sp_coeff2(%s, xt_gv), sp_coeff(%s, xt_gv))' % (res, a)),
                                   ('constant_term', '%s(%s.known_term, %s.known_term, *right)' % (rel, res, a))]
            rchk = ('lin_coeffs_wf(RES) && lin_all_vars(RES, a0, a0, [&](smt::var v) { return coeff(RES, v) == coeff(a0, v); }) && %s(view(RES.known_term), view(a0.known_term), view(b))' % rel)
        else:
            post = lambda res, a: coeffwise(rel, res, a, '(*right)', False)
            rchk = ('lin_coeffs_wf(RES) && lin_all_vars(RES, a0, a0, [&](smt::var v) { return %s(view(coeff(RES, v)), view(coeff(a0, v)), view(b)); }) && %s(view(RES.known_term), view(a0.known_term), view(b))' % (rel, rel))
        J('op_%s__rational' % op, 'smt_lin_op_%s__rational' % op,
          Contract(requires=pre, ensures=[NOEXC, ('wf', 'wf_lin_res(%s, %d)' % (LR, 2 * LMAX))] + post(LR, '(*self)'), assigns='__exc'),
          replay=MKA + MKR + '  smt::lin a0 = a; smt::lin r = a %s b;\n  ok = %s; observed = show(r); required = "(" + show(a) + ") %s " + show(b) + " coefficient-wise";\n' % (c, rchk.replace('RES', 'r'), c))
        J('op_%seq__rational' % op, 'smt_lin_op_%seq__rational' % op,
          Contract(requires=pre, ensures=[NOEXC, ('wf', 'wf_lin_res(*self, %d)' % (2 * LMAX))] + post('(*self)', '__CPROVER_old(*self)') +
                   [('returns_copy', 'sp_rat_identical(sp_coeff2(%s, xt_gv), sp_coeff2(*self, xt_gv)) && sp_rat_identical(%s.known_term, self->known_term)' % (LR, LR))],
                   assigns='__exc, *self'),
          replay=MKA + MKR + '  smt::lin a0 = a; a %s= b;\n  ok = %s; observed = show(a); required = "(" + show(a0) + ") %s= " + show(b) + " coefficient-wise";\n' % (c, rchk.replace('RES', 'a'), c))

    # ---- rational op lin (friends): + - *
    FR_LHS, FR_RHS = '__CPROVER_is_fresh(lhs, sizeof(*lhs))', '__CPROVER_is_fresh(rhs, sizeof(*rhs))'
    MKL = '  smt::rational a = mk_rat(S[12], S[13]);\n'
    for op, c in (('add', '+'), ('sub', '-'), ('mul', '*')):
        pre = [FR_LHS + ' && ' + FR_RHS, '__exc == 0', 'lin_shape(*rhs) && in_range_lin(*rhs) && wf_lin(*rhs)', 'in_range(*lhs) && wf_rat(*lhs) && !sp_is_inf(*lhs)',
               'sp_lin_rec(130, *rhs) && xt_rec(12, lhs->num) && xt_rec(13, lhs->den) && ' + REC_GV]
        if op == 'add':
            post = [('coefficient', 'sp_rat_identical(sp_coeff2(%s, xt_gv), sp_coeff(*rhs, xt_gv))' % LR), ('constant_term', 'rat_is_sum(%s.known_term, *lhs, rhs->known_term)' % LR)]
            rchk = 'lin_all_vars(r, b, b, [&](smt::var v) { return coeff(r, v) == coeff(b, v); }) && rat_is_sum(view(r.known_term), view(a), view(b.known_term))'
        elif op == 'sub':
            post = [('coefficient', 'sp_rat_identical(sp_coeff2(%s, xt_gv), sp_neg(sp_coeff(*rhs, xt_gv)))' % LR), ('constant_term', 'rat_is_diff(%s.known_term, *lhs, rhs->known_term)' % LR)]
            rchk = 'lin_all_vars(r, b, b, [&](smt::var v) { return coeff(r, v) == -coeff(b, v); }) && rat_is_diff(view(r.known_term), view(a), view(b.known_term))'
        else:
            post = [('coefficient', 'rat_is_prod(sp_coeff2(%s, xt_gv), *lhs, sp_coeff(*rhs, xt_gv))' % LR), ('constant_term', 'rat_is_prod(%s.known_term, *lhs, rhs->known_term)' % LR)]
            rchk = 'lin_all_vars(r, b, b, [&](smt::var v) { return rat_is_prod(view(coeff(r, v)), view(a), view(coeff(b, v))); }) && rat_is_prod(view(r.known_term), view(a), view(b.known_term))'
        J('op_%s__rational__lin' % op, 'smt_op_%s__rational__lin' % op,
          Contract(requires=pre, ensures=[NOEXC, ('wf', 'wf_lin_res(%s, %d)' % (LR, 2 * LMAX))] + post, assigns='__exc'),
          replay=MKL + MKB + '  smt::lin r = a %s b;\n  ok = lin_coeffs_wf(r) && %s; observed = show(r); required = show(a) + " %s (" + show(b) + ") coefficient-wise";\n' % (c, rchk, c))

    # ---- unary minus
    J('op_neg', 'smt_lin_op_sub',
      Contract(requires=[FR_SELF, '__exc == 0', WFL_SELF, 'sp_lin_rec(100, *self) && ' + REC_GV],
               ensures=[NOEXC, ('wf', 'wf_lin_res(%s, %d)' % (LR, 2 * LMAX)),
                        ('coefficient', 'sp_rat_identical(sp_coeff2(%s, xt_gv), sp_neg(sp_coeff(*self, xt_gv)))' % LR),
                        ('constant_term', 'sp_rat_identical(%s.known_term, sp_neg(self->known_term))' % LR)], assigns='__exc'),
      replay=MKA + '  smt::lin r = -a;\n  ok = lin_all_vars(r, a, a, [&](smt::var v) { return coeff(r, v) == -coeff(a, v); }) && r.known_term == -a.known_term; observed = show(r); required = "-(" + show(a) + ")";\n')

    # ---- constructors
    J('ctor', 'smt_lin_ctor', Contract(requires=['__exc == 0', REC_GV], ensures=[('zero', '%s.vars.n == 0 && %s.known_term.num == 0 && %s.known_term.den == 1' % (LR, LR, LR))], assigns='__exc'))
    J('ctor__rational', 'smt_lin_ctor__rational',
      Contract(requires=['__CPROVER_is_fresh(known_term, sizeof(*known_term))', '__exc == 0'],
               ensures=[('value', '%s.vars.n == 0 && sp_rat_identical(%s.known_term, *known_term)' % (LR, LR))], assigns='__exc'))
    J('ctor__U__rational', 'smt_lin_ctor__U__rational',
      Contract(requires=['__CPROVER_is_fresh(c, sizeof(*c))', '__exc == 0', REC_GV],
               ensures=[('coefficient', 'sp_rat_identical(sp_coeff2(%s, xt_gv), xt_gv == v ? *c : sp_of_int(0))' % LR),
                        ('constant_term', '%s.known_term.num == 0 && %s.known_term.den == 1' % (LR, LR)), ('one_term', '%s.vars.n == 1' % LR)], assigns='__exc'))


# what the evidence file says is NOT decided by this module, and what it assumes
INFO = {'not_under_contract': ['to_string of rational / inf_rational / lin (display only)', 'operands beyond the stated magnitude (2^W) - nothing is claimed there'], 'assumptions': ['std::gcd / std::lcm modelled by Euclid on the narrow integer type']}
