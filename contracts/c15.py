"""C15 — rational / inf_rational / lin arithmetic is exact: contracts keyed by extracted function (DESIGN §5/C15).

Every postcondition is the property's statement over the mathematical *view* (arith_spec.h), not a restatement of the code.
Slots recorded for replay: 0,1 = *self (num, den); 2,3 = rational rhs; 4 = integer rhs; 5 = integer lhs; 6,7 = ctor n,d."""
from vlib.engine import Contract, Job, Known

RAT_TUS = ['smt/arith/rational.cpp']
SPEC = ['arith_spec.h']

FRESH_SELF = '__CPROVER_is_fresh(self, sizeof(*self))'
FRESH_RHS = '__CPROVER_is_fresh(rhs, sizeof(*rhs))'
FRESH_LHS = '__CPROVER_is_fresh(lhs, sizeof(*lhs))'
REC_SELF = 'xt_rec(0, self->num) && xt_rec(1, self->den)'
REC_RHS_R = 'xt_rec(2, rhs->num) && xt_rec(3, rhs->den)'
REC_RHS_I = 'xt_rec(4, *rhs)'
REC_LHS_I = 'xt_rec(5, *lhs)'
WF_SELF = 'in_range(*self) && wf_rat(*self)'
WF_RHS = 'in_range(*rhs) && wf_rat(*rhs)'

CMP = {'lt': '<', 'le': '<=', 'eq': '==', 'ge': '>=', 'gt': '>', 'ne': '!='}
CPPOP = {'add': '+', 'sub': '-', 'mul': '*', 'div': '/'}
REL = {'add': 'rat_is_sum', 'sub': 'rat_is_diff', 'mul': 'rat_is_prod', 'div': 'rat_is_quot'}

# operand combinations for which the operation is undefined (the code asserts / documents them away)
UNDEF = {
    'add': '(sp_is_pinf(A) && sp_is_ninf(B)) || (sp_is_ninf(A) && sp_is_pinf(B))',
    'sub': '(sp_is_pinf(A) && sp_is_pinf(B)) || (sp_is_ninf(A) && sp_is_ninf(B))',
    'mul': '(A.num == 0 && sp_is_inf(B)) || (sp_is_inf(A) && B.num == 0)',
    'div': '(sp_is_inf(A) && sp_is_inf(B)) || (A.num == 0 && B.num == 0)',
}


def undef(op, a, b):
    return '!(' + UNDEF[op].replace('A', a).replace('B', b) + ')'


def rat_replay(stanza):
    return {'driver': 'arith', 'stanza': stanza}


MK_SELF = '  smt::rational a = mk_rat(S[0], S[1]);\n'
MK_RHS_R = '  smt::rational b = mk_rat(S[2], S[3]);\n'


def jobs(tier):
    W, bits, unwind = (3, 16, 12) if tier == 'quick' else (4, 24, 16)
    defines = {'I_BITS': bits, 'SPEC_W': W}
    bounded = 'operands |num|,den < 2^%d (machine width %d, overflow checks on); Euclid loops unwound %d with unwinding assertions' % (W, bits, unwind)
    out = []

    def J(name, target, contract, replay=None, known=(), **kw):
        out.append(Job('rational.' + name, target, tus=RAT_TUS, contract=contract, defines=defines, unwind=unwind, spec_headers=SPEC,
                       replay=rat_replay(replay) if replay else None, known=known, bounded=bounded, timeout=1800, **kw))

    # ---- comparisons against rational: a total order  -inf < finite < +inf consistent with the values
    for op, c in CMP.items():
        J('op_%s__rational' % op, 'smt_rational_op_%s__rational' % op,
          Contract(requires=[FRESH_SELF + ' && ' + FRESH_RHS, REC_SELF + ' && ' + REC_RHS_R, 'in_range(*self) && in_range(*rhs)',
                             'wf_rat(*self) && wf_rat(*rhs)'],
                   ensures=[('order', '__CPROVER_return_value == (sp_cmp(*self, *rhs) %s 0)' % c)], assigns=''),
          replay=MK_SELF + MK_RHS_R + '  bool r = a %s b; bool want = sp_cmp(view(a), view(b)) %s 0;\n  ok = (r == want); observed = std::to_string(r); required = std::to_string(want) + " for " + show(a) + " %s " + show(b);\n' % (c, c, c))
        J('op_%s__I' % op, 'smt_rational_op_%s__I' % op,
          Contract(requires=[FRESH_SELF + ' && ' + FRESH_RHS, REC_SELF + ' && ' + REC_RHS_I, 'in_range(*self) && in_range_I(*rhs)', 'wf_rat(*self)'],
                   ensures=[('order', '__CPROVER_return_value == (sp_cmp(*self, sp_of_int(*rhs)) %s 0)' % c)], assigns=''),
          replay=MK_SELF + '  long b = S[4]; bool r = a %s b; bool want = sp_cmp(view(a), sp_of_int(b)) %s 0;\n  ok = (r == want); observed = std::to_string(r); required = std::to_string(want) + " for " + show(a) + " %s " + std::to_string(b);\n' % (c, c, c))

    # ---- binary arithmetic
    for op, c in CPPOP.items():
        rel = REL[op]
        J('op_%s__rational' % op, 'smt_rational_op_%s__rational' % op,
          Contract(requires=[FRESH_SELF + ' && ' + FRESH_RHS, REC_SELF + ' && ' + REC_RHS_R, 'in_range(*self) && in_range(*rhs)',
                             'wf_rat(*self) && wf_rat(*rhs)', undef(op, '(*self)', '(*rhs)')],
                   ensures=[('canonical', 'wf_rat(__CPROVER_return_value)'), ('value', '%s(__CPROVER_return_value, *self, *rhs)' % rel)], assigns=''),
          replay=MK_SELF + MK_RHS_R + '  smt::rational r = a %s b;\n  ok = wf_rat(view(r)) && %s(view(r), view(a), view(b)); observed = show(r); required = show(a) + " %s " + show(b) + " exactly, canonical";\n' % (c, rel, c))
        J('op_%s__I' % op, 'smt_rational_op_%s__I' % op,
          Contract(requires=[FRESH_SELF + ' && ' + FRESH_RHS, REC_SELF + ' && ' + REC_RHS_I, 'in_range(*self) && in_range_I(*rhs)', 'wf_rat(*self)',
                             undef(op, '(*self)', 'sp_of_int(*rhs)')],
                   ensures=[('canonical', 'wf_rat(__CPROVER_return_value)'), ('value', '%s(__CPROVER_return_value, *self, sp_of_int(*rhs))' % rel)], assigns=''),
          replay=MK_SELF + '  long b = S[4]; smt::rational r = a %s b;\n  ok = wf_rat(view(r)) && %s(view(r), view(a), sp_of_int(b)); observed = show(r); required = show(a) + " %s " + std::to_string(b) + " exactly, canonical";\n' % (c, rel, c))
        J('op_%s__I__rational' % op, 'smt_op_%s__I__rational' % op,
          Contract(requires=[FRESH_LHS + ' && ' + FRESH_RHS, REC_LHS_I + ' && ' + REC_RHS_R, 'in_range_I(*lhs) && in_range(*rhs)', 'wf_rat(*rhs)',
                             undef(op, 'sp_of_int(*lhs)', '(*rhs)')],
                   ensures=[('canonical', 'wf_rat(__CPROVER_return_value)'), ('value', '%s(__CPROVER_return_value, sp_of_int(*lhs), *rhs)' % rel)], assigns=''),
          replay=MK_RHS_R + '  long a = S[5]; smt::rational r = a %s b;\n  ok = wf_rat(view(r)) && %s(view(r), sp_of_int(a), view(b)); observed = show(r); required = std::to_string(a) + " %s " + show(b) + " exactly, canonical";\n' % (c, rel, c))
        # compound assignment: *self becomes the binary result, the reference returned is self, nothing else is written
        J('op_%seq__rational' % op, 'smt_rational_op_%seq__rational' % op,
          Contract(requires=[FRESH_SELF + ' && ' + FRESH_RHS, REC_SELF + ' && ' + REC_RHS_R, 'in_range(*self) && in_range(*rhs)',
                             'wf_rat(*self) && wf_rat(*rhs)', undef(op, '(*self)', '(*rhs)')],
                   ensures=[('canonical', 'wf_rat(*self)'), ('value', '%s(*self, __CPROVER_old(*self), *rhs)' % rel),
                            ('returns_self', '__CPROVER_return_value == self')], assigns='self->num, self->den'),
          replay=MK_SELF + MK_RHS_R + '  smt::rational a0 = a; smt::rational &rr = (a %s= b);\n  ok = wf_rat(view(a)) && %s(view(a), view(a0), view(b)) && &rr == &a; observed = show(a); required = show(a0) + " %s= " + show(b) + " exactly, canonical";\n' % (c, rel, c))
        J('op_%seq__I' % op, 'smt_rational_op_%seq__I' % op,
          Contract(requires=[FRESH_SELF + ' && ' + FRESH_RHS, REC_SELF + ' && ' + REC_RHS_I, 'in_range(*self) && in_range_I(*rhs)', 'wf_rat(*self)',
                             undef(op, '(*self)', 'sp_of_int(*rhs)')],
                   ensures=[('canonical', 'wf_rat(*self)'), ('value', '%s(*self, __CPROVER_old(*self), sp_of_int(*rhs))' % rel),
                            ('returns_self', '__CPROVER_return_value == self')], assigns='self->num, self->den'),
          replay=MK_SELF + '  long b = S[4]; smt::rational a0 = a; smt::rational &rr = (a %s= b);\n  ok = wf_rat(view(a)) && %s(view(a), view(a0), sp_of_int(b)) && &rr == &a; observed = show(a); required = show(a0) + " %s= " + std::to_string(b) + " exactly, canonical";\n' % (c, rel, c))

    # ---- unary minus
    J('op_neg', 'smt_rational_op_sub',
      Contract(requires=[FRESH_SELF, REC_SELF, WF_SELF],
               ensures=[('canonical', 'wf_rat(__CPROVER_return_value)'),
                        ('value', '__CPROVER_return_value.num == -self->num && __CPROVER_return_value.den == self->den')], assigns=''),
      replay=MK_SELF + '  smt::rational r = -a; ok = r.num == -a.num && r.den == a.den; observed = show(r); required = "-(" + show(a) + ")";\n')

    # ---- constructors / normalisation: canonical form for every (n, d) except 0/0
    J('ctor', 'smt_rational_ctor', Contract(ensures=[('zero', '__CPROVER_return_value.num == 0 && __CPROVER_return_value.den == 1')], assigns=''))
    J('ctor__I', 'smt_rational_ctor__I',
      Contract(requires=['xt_rec(6, n)', 'in_range_I(n)'], ensures=[('value', '__CPROVER_return_value.num == n && __CPROVER_return_value.den == 1')], assigns=''),
      replay='  smt::rational r(S[6]); ok = r.num == S[6] && r.den == 1; observed = show(r); required = std::to_string(S[6]) + "/1";\n')
    J('ctor__I__I', 'smt_rational_ctor__I__I',
      Contract(requires=['xt_rec(6, n) && xt_rec(7, d)', 'in_range_I(n) && in_range_I(d)', '!(n == 0 && d == 0)'],
               ensures=[('canonical', 'wf_rat(__CPROVER_return_value)'), ('value', 'sp_is_frac(__CPROVER_return_value, n, d)')], assigns=''),
      replay='  smt::rational r(S[6], S[7]); ok = wf_rat(view(r)) && sp_is_frac(view(r), S[6], S[7]); observed = show(r); required = "canonical form of " + std::to_string(S[6]) + "/" + std::to_string(S[7]);\n')
    J('normalize', 'smt_rational_normalize',
      Contract(requires=[FRESH_SELF, REC_SELF, 'in_range_I(self->num) && in_range_I(self->den)', '!(self->num == 0 && self->den == 0)'],
               ensures=[('canonical', 'wf_rat(*self)'), ('value', 'sp_is_frac(*self, __CPROVER_old(self->num), __CPROVER_old(self->den))')],
               assigns='self->num, self->den'),
      replay=MK_SELF + '  smt::rational a0 = a; a.normalize(); ok = wf_rat(view(a)) && sp_is_frac(view(a), a0.num, a0.den); observed = show(a); required = "canonical form of " + show(a0);\n')

    # ---- predicates and accessors
    preds = {'is_zero': 'sp_cmp(*rhs, sp_of_int(0)) == 0', 'is_positive': 'sp_cmp(*rhs, sp_of_int(0)) > 0',
             'is_positive_or_zero': 'sp_cmp(*rhs, sp_of_int(0)) >= 0', 'is_negative': 'sp_cmp(*rhs, sp_of_int(0)) < 0',
             'is_negative_or_zero': 'sp_cmp(*rhs, sp_of_int(0)) <= 0', 'is_infinite': 'sp_is_inf(*rhs)',
             'is_positive_infinite': 'sp_is_pinf(*rhs)', 'is_negative_infinite': 'sp_is_ninf(*rhs)',
             'is_integer': '(!sp_is_inf(*rhs) && rhs->num % rhs->den == 0)'}
    for p, e in preds.items():
        J(p, 'smt_%s__rational' % p,
          Contract(requires=[FRESH_RHS, REC_RHS_R, WF_RHS], ensures=[('meaning', '__CPROVER_return_value == (%s)' % e)], assigns=''),
          replay=MK_RHS_R + '  smt_rational v = view(b); smt_rational *rhs = &v; bool r = %s(b); bool want = (%s); ok = r == want; observed = std::to_string(r); required = std::to_string(want) + " for %s(" + show(b) + ")";\n' % (p, e, p))
    J('numerator', 'smt_rational_numerator', Contract(requires=[FRESH_SELF], ensures=[('value', '__CPROVER_return_value == self->num')], assigns=''))
    J('denominator', 'smt_rational_denominator', Contract(requires=[FRESH_SELF], ensures=[('value', '__CPROVER_return_value == self->den')], assigns=''))
    return out
