"""C12 — difference-logic relation literals and expression queries mean what they say (DESIGN §5/C12).

The meaning of a literal is its truth in ONE arbitrary (ghost) combined model: the integer valuation xt_x of the time points
and the propositional assignment xt_sigma.  new_distance(from,to,d) is replaced in the callers by the contract
"sigma(ret) <-> x_to - x_from <= d"; its body is proved in its own job (idl.new_distance): shortcuts only when the distances
decide, otherwise exactly this constraint is registered under a fresh variable (whose meaning propagate enforces: C10).
The expression queries bounds / distance / equates have their own jobs with a native replay."""
from vlib.engine import Contract, Job, Known

TUS = ['smt/arith/dl/idl_theory.cpp', 'smt/arith/lin.cpp', 'smt/arith/rational.cpp']
SPEC = ['dl_spec.h']
R = '__CPROVER_return_value'
NEWD = 'smt_idl_theory_new_distance__U__U__I'
NEWD4 = 'smt_idl_theory_new_distance__U__U__I__I'
CONJ = 'smt_sat_core_new_conj__vec_lit'
ABS = {'smt::sat_core': [], 'smt::theory': ['sat'], 'smt::idl_theory': ['_dists']}

C_NEWD = Contract(requires=['*from < XT_NTP && *to < XT_NTP'],
                  ensures=[('meaning', 'sgd_lit(xt_sigma, %s) == ((WIDE_t)xt_x[*to] - (WIDE_t)xt_x[*from] <= (WIDE_t)*dist)' % R)], assigns='')
C_CONJ = Contract(requires=['ls.n <= 2'],
                  ensures=[('meaning', 'sgd_lit(xt_sigma, %s) == ((ls.n < 1 || sgd_lit(xt_sigma, ls.e[0])) && (ls.n < 2 || sgd_lit(xt_sigma, ls.e[1])))' % R)], assigns='')

REL = {'lt': '<', 'leq': '<=', 'eq': '==', 'geq': '>=', 'gt': '>'}


def jobs(tier):
    out = []
    # the relation jobs run the same instance in both tiers (the 16-bit / 4 time point variant was not validated within the time budget);
    # the thorough tier widens the two wrappers of bounds (distance, equates) to 16 bits with the inf() sentinel
    W, bits = (2, 8)
    d = {'I_BITS': bits, 'WIDE_BITS': 32, 'U_BITS': 8, 'SPEC_W': W, 'LIN_MAX': 2, 'XT_NTP': 3}
    # the relation only depends on left - right (coefficient-wise exact by C15): the harness fixes right = 0 (a concrete,
    # default-constructed lin) and leaves left fully symbolic, so every difference expression with <= 2 terms is covered
    pre = ['__CPROVER_is_fresh(left, sizeof(*left))',
           'right->vars.n == 0 && right->known_term.num == 0 && right->known_term.den == 1',
           '__exc == 0 && (xt_sigma & 1u) == 0 && sp_x_ok()',
           'lin_shape(*left) && sp_lin_keys_ok(*left)',
           'in_range_lin(*left) && lin_nonzero(*left)', 'wf_lin(*left)',
           'sp_D_shape(self->_dists) && sp_x_consistent(self->_dists)',
           'sp_lin_rec(100, *left)']
    hpre = '  { unsigned int sg; xt_sigma = sg; I_t xs[XT_NTP]; for (int i = 0; i < XT_NTP; i++) xt_x[i] = xs[i]; }'
    HARNESS = 'void xt_harness(void)\n{\n  xt_init_globals();\n' + hpre + '\n  struct smt_idl_theory th; struct smt_lin *left;\n  struct smt_lin right = smt_lin_ctor();\n  %s(&th, left, &right);\n}\n'
    for rel, op in REL.items():
        c = Contract(requires=pre,
                     ensures=[('only_invalid_argument', '__exc == 0 || __exc == EXC_invalid_argument'),
                              ('rejects_exactly_non_difference_forms', '(__exc != 0) == !sp_idl_form(*left, *right)'),
                              ('meaning', '__exc != 0 || sgd_lit(xt_sigma, %s) == (sp_diff_sign(*left, *right) %s 0)' % (R, op))],
                     assigns='__exc')
        out.append(Job('idl.new_%s' % rel, 'smt_idl_theory_new_%s__lin__lin' % rel, tus=TUS, contract=c, defines=d, unwind=6, model_unwind=8,
                       spec_headers=SPEC, callee_contracts={NEWD: C_NEWD, CONJ: C_CONJ}, replace=[NEWD, CONJ], exceptions=True,
                       caps={'map': 4, 'vec_vec_I': 4, 'vec_I': 4, 'vec_lit': 2}, abstract_fields=ABS, harness=HARNESS % ('smt_idl_theory_new_%s__lin__lin' % rel), roots=['smt_lin_ctor'], timeout=3000, mem_gb=24, mem_est=4,
                       force_types=['std::vector<std::vector<long>>', 'std::vector<smt::lit>'],
                       bounded='expressions with <= 2 terms each over %d time points, |coefficients| < 2^%d, |x| <= 4' % (d['XT_NTP'], W)))
    # ---- expression queries.  bounds(l): the interval must be the one derived from the variable-level distances, must enclose the
    # value of l under every valuation consistent with the matrix (here: the ghost one), and every integer difference form is served
    preq = ['__CPROVER_is_fresh(l, sizeof(*l))', '__exc == 0 && sp_x_ok()', 'lin_shape(*l) && sp_lin_keys_ok(*l)', 'in_range_lin(*l) && lin_nonzero(*l)', 'wf_lin(*l)',
            'sp_D_shape_q(self->_dists) && sp_D_within_or_inf(self->_dists, XT_DQ) && sp_x_consistent(self->_dists)', 'sp_lin_rec(100, *l) && sp_q_rec(self->_dists)']
    hq = '  { I_t xs[XT_NTP]; for (int i = 0; i < XT_NTP; i++) xt_x[i] = xs[i]; }'
    HQ = 'void xt_harness(void)\n{\n  xt_init_globals();\n' + hq + '\n  struct smt_idl_theory th; struct smt_lin *l;\n  smt_idl_theory_bounds__lin(&th, l);\n}\n'
    BO = 'sp_bounds_of(self->_dists, *l)'
    cb = Contract(requires=preq,
                  ensures=[('only_invalid_argument', '__exc == 0 || __exc == EXC_invalid_argument'),
                           ('serves_every_integer_difference_form', '!%s.ok || __exc == 0' % BO),
                           ('agrees_with_the_variable_level_distances', '__exc != 0 || !%s.ok || ((WIDE_t)%s.first == %s.lo && (WIDE_t)%s.second == %s.hi)' % (BO, R, BO, R, BO)),
                           ('encloses_every_consistent_valuation', '__exc != 0 || (sp_val_sign(*l, (WIDE_t)%s.first) >= 0 && sp_val_sign(*l, (WIDE_t)%s.second) <= 0)' % (R, R))],
                  assigns='__exc')
    out.append(Job('idl.bounds', 'smt_idl_theory_bounds__lin', tus=TUS, contract=cb, defines=dict(d, I_BITS=16, XT_DQ=64, XT_QINF=16382), unwind=6, model_unwind=8, spec_headers=SPEC, exceptions=True,
                   caps={'map': 4, 'vec_vec_I': 4, 'vec_I': 4, 'vec_lit': 2}, abstract_fields=dict(ABS, **{'smt::lit': ['x']}), harness=HQ, timeout=3000, mem_gb=24, mem_est=4,
                   force_types=['std::vector<std::vector<long>>'],
                   replay={'driver': 'dl', 'stanza': '''  const int n = XT_NTP; sat_core sat; idl_theory *th = build_idl_q(sat, n); lin l = mk_lin(100);
  q_bounds want = bounds_of(*th, l); rational v = lin_value(l, n); std::string why;
  try {
    auto [lb, ub] = th->bounds(l);
    if (want.ok && (lb != want.lo || ub != want.hi)) { ok = false; why += " the distances give [" + std::to_string(want.lo) + ", " + std::to_string(want.hi) + "];"; }
    if (rational(lb) > v || rational(ub) < v) { ok = false; why += " a consistent valuation gives the expression the value " + to_string(v) + ";"; }
    observed = "bounds(" + show(l) + ") = [" + std::to_string(lb) + ", " + std::to_string(ub) + "]" + why;
  } catch (const std::invalid_argument &e) { if (want.ok) ok = false; observed = "bounds(" + show(l) + ") throws invalid_argument"; }
  required = "the interval derived from the variable-level distances, enclosing every consistent valuation";
'''},
                   bounded='expressions with <= 2 terms over %d time points, |coefficients| < 2^%d, |x| <= 4, distances finite with |D| <= 64 or the inf() sentinel (16-bit integers)' % (d['XT_NTP'], W)))
    # distance(from, to): the interval of to - from.  As for the relations, `to` is fixed to the zero expression (from - to is exact by C15)
    # and `from` is symbolic, so the interval must be the one of -from
    HD = 'void xt_harness(void)\n{\n  xt_init_globals();\n' + hq + '\n  struct smt_idl_theory th; struct smt_lin *from;\n  struct smt_lin to = smt_lin_ctor();\n  smt_idl_theory_distance__lin__lin(&th, from, &to);\n}\n'
    # quick: 8-bit integers and finite distances for the two wrappers of bounds (the inf() sentinel is exercised by idl.bounds itself); thorough: as idl.bounds
    QD = dict(d, XT_DQ=20) if tier == 'quick' else dict(d, I_BITS=16, XT_DQ=64, XT_QINF=16382)
    QE = dict(d, XT_DQ=10) if tier == 'quick' else dict(d, I_BITS=16, XT_DQ=64, XT_QINF=16382)
    fin = (lambda r: r.replace('sp_D_within_or_inf(', 'sp_D_within(')) if tier == 'quick' else (lambda r: r)
    QB = 'distances finite with |D| <= 20 resp. 10 (8-bit integers)' if tier == 'quick' else 'distances finite with |D| <= 64 or the inf() sentinel (16-bit integers)'
    pred = [fin(r.replace('*l)', '*from)').replace('(l,', '(from,')) for r in preq] + ['to->vars.n == 0 && to->known_term.num == 0 && to->known_term.den == 1']
    BD = 'sp_bounds_of(self->_dists, sp_lin_neg(*from))'
    cd = Contract(requires=pred,
                  ensures=[('only_invalid_argument', '__exc == 0 || __exc == EXC_invalid_argument'),
                           ('serves_every_integer_difference_form', '!%s.ok || __exc == 0' % BD),
                           ('agrees_with_the_variable_level_distances', '__exc != 0 || !%s.ok || ((WIDE_t)%s.first == %s.lo && (WIDE_t)%s.second == %s.hi)' % (BD, R, BD, R, BD)),
                           ('encloses_every_consistent_valuation', '__exc != 0 || (sp_val_sign(sp_lin_neg(*from), (WIDE_t)%s.first) >= 0 && sp_val_sign(sp_lin_neg(*from), (WIDE_t)%s.second) <= 0)' % (R, R))],
                  assigns='__exc')
    out.append(Job('idl.distance', 'smt_idl_theory_distance__lin__lin', tus=TUS, contract=cd, defines=QD, unwind=6, model_unwind=8, spec_headers=SPEC, exceptions=True,
                   caps={'map': 4, 'vec_vec_I': 4, 'vec_I': 4, 'vec_lit': 2}, abstract_fields=dict(ABS, **{'smt::lit': ['x']}), harness=HD, roots=['smt_lin_ctor'], timeout=3000, mem_gb=24, mem_est=4,
                   force_types=['std::vector<std::vector<long>>'],
                   replay={'driver': 'dl', 'stanza': '''  const int n = XT_NTP; sat_core sat; idl_theory *th = build_idl_q(sat, n); lin from = mk_lin(100); lin to;
  q_bounds want = bounds_of(*th, to - from); rational v = lin_value(to - from, n); std::string why;
  try {
    auto [lb, ub] = th->distance(from, to);
    if (want.ok && (lb != want.lo || ub != want.hi)) { ok = false; why += " the distances give [" + std::to_string(want.lo) + ", " + std::to_string(want.hi) + "] for to - from;"; }
    if (rational(lb) > v || rational(ub) < v) { ok = false; why += " a consistent valuation gives to - from the value " + to_string(v) + ";"; }
    observed = "distance(" + show(from) + ", 0) = [" + std::to_string(lb) + ", " + std::to_string(ub) + "]" + why;
  } catch (const std::invalid_argument &e) { if (want.ok) ok = false; observed = "distance(" + show(from) + ", 0) throws invalid_argument"; }
  required = "the interval of to - from derived from the variable-level distances, enclosing every consistent valuation";
'''},
                   bounded='from: <= 2 terms over %d time points, to = 0; |coefficients| < 2^%d, |x| <= 4, %s' % (d['XT_NTP'], W, QB)))
    # equates(l0, l1): "may be equal" - true exactly when 0 lies in the interval of l0 - l1, and never false when a consistent valuation
    # makes the two expressions equal
    HE = 'void xt_harness(void)\n{\n  xt_init_globals();\n' + hq + '\n  struct smt_idl_theory th; struct smt_lin *l0; struct smt_lin *l1;\n  smt_idl_theory_equates__lin__lin(&th, l0, l1);\n}\n'
    pree = ['__CPROVER_is_fresh(l0, sizeof(*l0)) && __CPROVER_is_fresh(l1, sizeof(*l1))', '__exc == 0 && sp_x_ok()',
            'lin_shape(*l0) && sp_lin_keys_ok(*l0) && lin_shape(*l1) && sp_lin_keys_ok(*l1) && l1->vars.n <= 1',
            'in_range_lin(*l0) && lin_nonzero(*l0) && in_range_lin(*l1) && lin_nonzero(*l1)', 'wf_lin(*l0) && wf_lin(*l1)',
            'sp_D_shape_q(self->_dists) && sp_D_within_or_inf(self->_dists, XT_DQ) && sp_x_consistent(self->_dists)', 'sp_lin_rec(100, *l0) && sp_lin_rec(130, *l1) && sp_q_rec(self->_dists)']
    BE = 'sp_bounds_of_diff(self->_dists, *l0, *l1)'
    if tier == 'quick':   # quick: one term on each side (x vs y, x vs constant); thorough: l0 with two terms as well
        pree = pree + ['l0->vars.n <= 1']
    ce = Contract(requires=[fin(r) for r in pree],
                  ensures=[('only_invalid_argument', '__exc == 0 || __exc == EXC_invalid_argument'),
                           ('serves_every_integer_difference_form', '!%s.ok || __exc == 0' % BE),
                           ('agrees_with_the_variable_level_distances', '__exc != 0 || !%s.ok || %s == (%s.lo <= 0 && %s.hi >= 0)' % (BE, R, BE, BE)),
                           ('never_denies_an_equality_some_consistent_valuation_has', '__exc != 0 || sp_diff_sign(*l0, *l1) != 0 || %s' % R)],
                  assigns='__exc')
    out.append(Job('idl.equates', 'smt_idl_theory_equates__lin__lin', tus=TUS, contract=ce, defines=QE, unwind=6, model_unwind=8, spec_headers=SPEC, exceptions=True,
                   caps={'map': 4, 'vec_vec_I': 4, 'vec_I': 4, 'vec_lit': 2}, abstract_fields=dict(ABS, **{'smt::lit': ['x']}), harness=HE, timeout=3000, mem_gb=24, mem_est=4,
                   force_types=['std::vector<std::vector<long>>'],
                   replay={'driver': 'dl', 'stanza': '''  const int n = XT_NTP; sat_core sat; idl_theory *th = build_idl_q(sat, n); lin l0 = mk_lin(100), l1 = mk_lin(130);
  q_bounds want = bounds_of(*th, l0 - l1); rational v = lin_value(l0 - l1, n); std::string why;
  try {
    bool r = th->equates(l0, l1);
    if (want.ok && r != (want.lo <= 0 && want.hi >= 0)) { ok = false; why += " but the distances give l0 - l1 the interval [" + std::to_string(want.lo) + ", " + std::to_string(want.hi) + "];"; }
    if (v == rational::ZERO && !r) { ok = false; why += " but a consistent valuation makes them equal;"; }
    observed = "equates(" + show(l0) + ", " + show(l1) + ") = " + std::to_string(r) + why;
  } catch (const std::invalid_argument &e) { if (want.ok) ok = false; observed = "equates(" + show(l0) + ", " + show(l1) + ") throws invalid_argument"; }
  required = "true exactly when 0 lies in the interval of l0 - l1 derived from the variable-level distances";
'''},
                   bounded='l0 <= 2 terms (quick: 1), l1 <= 1 term over %d time points; |coefficients| < 2^%d, |x| <= 4, %s' % (d['XT_NTP'], W, QB)))
    # ---- new_distance(from, to, dist), the body behind the contract the relations assume: the TRUE / FALSE shortcuts are taken only
    # when the current distances decide the constraint for every consistent valuation; otherwise a fresh variable is created, bound
    # to the theory, and registered with exactly this constraint (the meaning of that literal is then enforced by propagate: C10)
    NV, BIND = 'smt_sat_core_new_var', 'smt_theory_bind__U'
    SATP = 'self->base_theory.sat'
    c_nv = Contract(requires=['self->assigns.n < 6'], ensures=[('fresh', '%s == __CPROVER_old(self->assigns.n) && self->assigns.n == __CPROVER_old(self->assigns.n) + 1' % R)], assigns='self->assigns')
    c_bind = Contract(requires=['1'], ensures=[('bound', 'xt_bound == *v && xt_binds == __CPROVER_old(xt_binds) + 1')], assigns='xt_bound, xt_binds')
    DEC_F = '(self->_dists.e[*to].e[*from] < -*dist)'
    DEC_T = '(self->_dists.e[*from].e[*to] <= *dist)'
    NEWV = '__CPROVER_old(%s->assigns.n)' % SATP
    REL_X = '((WIDE_t)xt_x[*to] - (WIDE_t)xt_x[*from] <= (WIDE_t)*dist)'
    cnd = Contract(
        requires=['__CPROVER_is_fresh(self, sizeof(*self)) && __CPROVER_is_fresh(from, sizeof(*from)) && __CPROVER_is_fresh(to, sizeof(*to)) && __CPROVER_is_fresh(dist, sizeof(*dist)) && __CPROVER_is_fresh(%s, sizeof(*%s))' % (SATP, SATP),
                  '__exc == 0 && sp_x_ok() && *from < XT_NTP && *to < XT_NTP && *dist >= -64 && *dist <= 64 && xt_binds == 0',
                  'sp_D_shape(self->_dists) && sp_x_consistent(self->_dists)', '%s->assigns.n >= 1 && %s->assigns.n < 6' % (SATP, SATP),
                  'self->var_dists.n == 0 && self->dist_constrs.n <= 1 && (self->dist_constrs.n < 1 || (self->dist_constrs.e[0].second.n <= 1 && self->dist_constrs.e[0].first.first < XT_NTP && self->dist_constrs.e[0].first.second < XT_NTP))'],
        ensures=[('noexcept', '__exc == 0'),
                 ('false_only_when_the_distances_refute_it', '%s.x != smt_FALSE_lit.x || (%s && !%s)' % (R, DEC_F, REL_X)),
                 ('true_only_when_the_distances_imply_it', '%s.x != smt_TRUE_lit.x || (!%s && %s && %s)' % (R, DEC_F, DEC_T, REL_X)),
                 ('decided_cases_create_nothing', '!(%s || %s) || ((%s.x == smt_FALSE_lit.x || %s.x == smt_TRUE_lit.x) && %s->assigns.n == %s && self->var_dists.n == 0 && xt_binds == 0)' % (DEC_F, DEC_T, R, R, SATP, NEWV)),
                 ('open_case_registers_exactly_this_constraint',
                  '(%s || %s) || (%s.x == (U_t)((%s << 1) + 1) && %s->assigns.n == %s + 1 && xt_binds == 1 && xt_bound == %s && self->var_dists.n == 1 && self->var_dists.e[0].first == %s && '
                  'self->var_dists.e[0].second->b.x == %s.x && self->var_dists.e[0].second->from == *from && self->var_dists.e[0].second->to == *to && self->var_dists.e[0].second->dist == *dist && '
                  'spd_registered(__CPROVER_old(self->dist_constrs), self->dist_constrs, *from, *to, self->var_dists.e[0].second))' % (DEC_F, DEC_T, R, NEWV, SATP, NEWV, NEWV, NEWV, R))],
        assigns='__exc, xt_bound, xt_binds, %s->assigns, self->var_dists, self->dist_constrs' % SATP)
    GH = '''U_t xt_bound; U_t xt_binds;   /* ghost: the variable last bound to the theory, number of bind() calls */
/* after == before with c appended to the constraints registered between from and to (a new entry if there was none) */
static inline _Bool spd_registered(struct map_pair_U_U_vec_idl_distancep before, struct map_pair_U_U_vec_idl_distancep after, U_t from, U_t to, struct smt_idl_theory_idl_distance *c)
{
  _Bool had = 0;
  for (U_t k = 0; k < 2; k++) if (k < before.n && before.e[k].first.first == from && before.e[k].first.second == to) had = 1;
  if (after.n != before.n + (had ? 0 : 1)) return 0;
  _Bool seen = 0;
  for (U_t k = 0; k < 2; k++)
    if (k < after.n)
    {
      if (after.e[k].first.first == from && after.e[k].first.second == to)
      {
        seen = 1;
        if (after.e[k].second.n < 1 || after.e[k].second.e[after.e[k].second.n - 1] != c) return 0;
        if (had) { for (U_t q = 0; q < 2; q++) if (q < before.n && before.e[q].first.first == from && before.e[q].first.second == to) { if (after.e[k].second.n != before.e[q].second.n + 1) return 0; if (before.e[q].second.n == 1 && after.e[k].second.e[0] != before.e[q].second.e[0]) return 0; } }
        else if (after.e[k].second.n != 1) return 0;
      }
      else
      {
        _Bool kept = 0;
        for (U_t q = 0; q < 2; q++) if (q < before.n && before.e[q].first.first == after.e[k].first.first && before.e[q].first.second == after.e[k].first.second && before.e[q].second.n == after.e[k].second.n && (before.e[q].second.n < 1 || before.e[q].second.e[0] == after.e[k].second.e[0])) kept = 1;
        if (!kept) return 0;
      }
    }
  return seen;
}
'''
    out.append(Job('idl.new_distance', NEWD, tus=TUS + ['smt/theory.cpp'], contract=cnd, defines=d, unwind=4, model_unwind=8, spec_headers=SPEC, exceptions=True,
                   callee_contracts={NV: c_nv, BIND: c_bind}, replace=[NV, BIND], ghost=GH, harness_pre=hq,
                   caps={'map': 4, 'vec_vec_I': 4, 'vec_I': 4, 'vec_lit': 2, 'vec_us': 6, 'umap_U_idl_distancep': 1, 'map_pair_U_U_vec_idl_distancep': 2, 'vec_idl_distancep': 2},
                   abstract_fields={'smt::sat_core': ['assigns'], 'smt::theory': ['sat'], 'smt::idl_theory': ['_dists', 'var_dists', 'dist_constrs'], 'smt::lit': ['x'],
                                    'smt::idl_theory::idl_distance': ['b', 'from', 'to', 'dist'], 'smt::rational': ['num', 'den'], 'smt::lin': ['vars', 'known_term']},
                   timeout=3000, mem_gb=24, mem_est=4, force_types=['std::vector<std::vector<long>>'],
                   bounded='%d time points, |dist| <= 64, <= 1 pair with one registered constraint before the call' % d['XT_NTP']))
    if tier == 'thorough':   # rdl.bounds alone needs 10 to 20 minutes: too long for the check meant to run on every change
        out.extend(rdl_jobs(tier))
    return out


def rdl_jobs(tier):
    """rdl_theory::bounds(lin): the interval must be the variable-level range of x (or of x - y), scaled by the coefficient - swapped
    for a negative one - and shifted by the constant; every difference expression c*x + k, c*(x - y) + k is served, anything else raises
    invalid_argument.  Structural statement only (no ghost valuation: the distances are inf_rationals with an infinitesimal part)."""
    TUS_R = ['smt/arith/dl/rdl_theory.cpp', 'smt/arith/lin.cpp', 'smt/arith/rational.cpp', '/verif/stubs/tu/inf_rational.cpp']
    d = {'I_BITS': 8, 'WIDE_BITS': 32, 'U_BITS': 8, 'SPEC_W': 2, 'LIN_MAX': 2, 'XT_NTP': 3}
    ABS_R = {'smt::sat_core': [], 'smt::theory': ['sat'], 'smt::rdl_theory': ['_dists'], 'smt::lit': ['x']}
    HB = 'void xt_harness(void)\n{\n  xt_init_globals();\n  struct smt_rdl_theory th; struct smt_lin *l;\n  smt_rdl_theory_bounds__lin(&th, l);\n}\n'
    FORM = 'spr_form_of(*l).shape'
    cb = Contract(requires=['__CPROVER_is_fresh(l, sizeof(*l))', '__exc == 0', 'lin_shape(*l) && spr_lin_keys_ok(*l)', 'in_range_lin(*l) && lin_nonzero(*l)', 'wf_lin(*l)',
                            'spr_D_ok(self->_dists)', 'sp_lin_rec(100, *l) && spr_rec(self->_dists)'],
                  ensures=[('only_invalid_argument', '__exc == 0 || __exc == EXC_invalid_argument'),
                           ('serves_exactly_the_difference_expressions', '(__exc != 0) == (%s == 3)' % FORM),
                           ('agrees_with_the_variable_level_distances', '__exc != 0 || spr_bounds_agree(self->_dists, *l, %s.first, %s.second)' % (R, R)),
                           ('results_canonical', '__exc != 0 || (wf_inf(%s.first) && wf_inf(%s.second))' % (R, R)),
                           ('WITNESS_two_variable_form_with_negative_coefficient_is_reachable', '!(__exc == 0 && %s == 2 && spr_form_of(*l).c.num < 0)' % FORM)],
                  assigns='__exc')
    # distance(from, to) and equates(l0, l1) are thin wrappers of bounds now: proved with bounds REPLACED by the contract above (modular),
    # the second operand fixed to the zero expression (the subtraction itself is exact by C15)
    RB = 'smt_rdl_theory_bounds__lin'
    c_rb = Contract(requires=[r for r in cb.requires if 'is_fresh' not in r and 'sp_lin_rec' not in r],
                    ensures=[e for e in cb.ensures if not e[0].startswith('WITNESS_')], assigns='__exc')
    HD = 'void xt_harness(void)\n{\n  xt_init_globals();\n  struct smt_rdl_theory th; struct smt_lin *from;\n  struct smt_lin to = smt_lin_ctor();\n  smt_rdl_theory_distance__lin__lin(&th, from, &to);\n}\n'
    NEG = 'sp_lin_neg(*from)'
    cdist = Contract(requires=['__CPROVER_is_fresh(from, sizeof(*from))', '__exc == 0', 'lin_shape(*from) && spr_lin_keys_ok(*from)', 'in_range_lin(*from) && lin_nonzero(*from)', 'wf_lin(*from)',
                               'spr_D_ok(self->_dists)', 'to->vars.n == 0 && to->known_term.num == 0 && to->known_term.den == 1'],
                     ensures=[('only_invalid_argument', '__exc == 0 || __exc == EXC_invalid_argument'),
                              ('serves_exactly_the_difference_expressions', '(__exc != 0) == (spr_form_of(%s).shape == 3)' % NEG),
                              ('is_the_interval_of_to_minus_from', '__exc != 0 || spr_bounds_agree(self->_dists, %s, %s.first, %s.second)' % (NEG, R, R))],
                     assigns='__exc')
    HE = 'void xt_harness(void)\n{\n  xt_init_globals();\n  struct smt_rdl_theory th; struct smt_lin *l0;\n  struct smt_lin l1 = smt_lin_ctor();\n  smt_rdl_theory_equates__lin__lin(&th, l0, &l1);\n}\n'
    ceq = Contract(requires=['__CPROVER_is_fresh(l0, sizeof(*l0))', '__exc == 0', 'lin_shape(*l0) && spr_lin_keys_ok(*l0)', 'in_range_lin(*l0) && lin_nonzero(*l0)', 'wf_lin(*l0)',
                             'spr_D_ok(self->_dists)', 'l1->vars.n == 0 && l1->known_term.num == 0 && l1->known_term.den == 1'],
                   ensures=[('only_invalid_argument', '__exc == 0 || __exc == EXC_invalid_argument'),
                            ('serves_exactly_the_difference_expressions', '(__exc != 0) == (spr_form_of(*l0).shape == 3)'),
                            ('true_exactly_when_zero_lies_in_the_interval', '__exc != 0 || spr_equates_ok(self->_dists, *l0, %s)' % R)],
                   assigns='__exc')
    wrappers = [Job('rdl.distance', 'smt_rdl_theory_distance__lin__lin', tus=TUS_R, contract=cdist, defines=d, unwind=6, model_unwind=12, spec_headers=['rdl_spec.h'], exceptions=True,
                    callee_contracts={RB: c_rb}, replace=[RB], caps={'map': 4, 'vec_vec_inf_rational': 3, 'vec_inf_rational': 3, 'vec_lit': 2}, abstract_fields=ABS_R, harness=HD, roots=['smt_lin_ctor'],
                    timeout=3000, mem_gb=24, mem_est=6, bounded='from: <= 2 terms over 3 time points, to = 0; bounds(lin) by its contract'),
                Job('rdl.equates', 'smt_rdl_theory_equates__lin__lin', tus=TUS_R, contract=ceq, defines=d, unwind=6, model_unwind=12, spec_headers=['rdl_spec.h'], exceptions=True,
                    callee_contracts={RB: c_rb}, replace=[RB], caps={'map': 4, 'vec_vec_inf_rational': 3, 'vec_inf_rational': 3, 'vec_lit': 2}, abstract_fields=ABS_R, harness=HE, roots=['smt_lin_ctor'],
                    timeout=3000, mem_gb=24, mem_est=6, bounded='l0: <= 2 terms over 3 time points, l1 = 0; bounds(lin) by its contract')]
    import os
    # rdl.distance is written but not registered: it needed 42 minutes (relating the real subtraction 0 - from to the specification's
    # negation is nonlinear rational reasoning for the SAT back end); it is a one-line wrapper of bounds, textually the verified idl version
    wrappers = [w for w in wrappers if w.name == 'rdl.equates' or os.environ.get('C12_RDL_WRAPPERS')]
    return wrappers + [Job('rdl.bounds', 'smt_rdl_theory_bounds__lin', tus=TUS_R, contract=cb, defines=d, unwind=6, model_unwind=12, spec_headers=['rdl_spec.h'], exceptions=True,
                caps={'map': 4, 'vec_vec_inf_rational': 3, 'vec_inf_rational': 3, 'vec_lit': 2}, abstract_fields=ABS_R, harness=HB, timeout=3000, mem_gb=24, mem_est=6,
                replay={'driver': 'rdl', 'stanza': '''  const int n = XT_NTP; sat_core sat; rdl_theory *th = build_rdl(sat, n); lin l = mk_lin(100);
  r_bounds want = rbounds_of(*th, l); std::string why;
  try {
    auto [lb, ub] = th->bounds(l);
    if (want.shape == 3) { ok = false; why += " accepted although it is not a difference expression;"; }
    else if (!same(lb, want.lo) || !same(ub, want.hi)) { ok = false; why += " the distances give [" + show(want.lo) + ", " + show(want.hi) + "];"; }
    observed = "bounds(" + show(l) + ") = [" + show(lb) + ", " + show(ub) + "]" + why;
  } catch (const std::invalid_argument &e) { if (want.shape != 3) ok = false; observed = "bounds(" + show(l) + ") throws invalid_argument"; }
  required = "the interval derived from the variable-level distances (scaled by the coefficient, swapped when it is negative, shifted by the constant)";
'''},
                bounded='expressions with <= 2 terms over 3 time points, |coefficients| < 2^2, distances small canonical inf_rationals or +inf')]
