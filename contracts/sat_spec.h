/* sat_spec.h — propositional views for the sat_core contracts (DESIGN §4): assignments sigma as bit vectors, the ghost
 * clause log written by (the contract of) new_clause, clause status under the root assignment. */
#ifndef SAT_SPEC_H
#define SAT_SPEC_H

#ifndef XT_MAXCL
#define XT_MAXCL 16
#endif
#ifndef XT_MAXLITS
#define XT_MAXLITS 6
#endif
#ifndef XT_MAXV
#define XT_MAXV 12
#endif

struct xt_clause { U_t n; struct smt_lit l[XT_MAXLITS]; };
struct xt_clause xt_cl[XT_MAXCL];   /* ghost: clauses added (append-only) */
U_t xt_ncl;
unsigned int xt_sigma;              /* ghost: the arbitrary total assignment all semantic statements are about */

enum { SP_FALSE = 0, SP_TRUE = 1, SP_UNDEF = 2 };

static inline U_t sp_var(struct smt_lit p) { return p.x >> 1; }
static inline _Bool sp_sign(struct smt_lit p) { return (p.x & 1) != 0; }
static inline struct smt_lit sp_mk_lit(U_t v, _Bool sign) { struct smt_lit p; p.x = (U_t)((v << 1) + (sign ? 1 : 0)); return p; }
static inline struct smt_lit sp_neg_lit(struct smt_lit p) { struct smt_lit q; q.x = p.x ^ 1; return q; }

/* truth of a literal under the total assignment sigma (bit v = value of variable v) */
static inline _Bool sg_lit(unsigned int sigma, struct smt_lit p)
{
  U_t v = sp_var(p);
  if (v >= XT_MAXV) return 0;
  return (((sigma >> v) & 1u) != 0) == sp_sign(p);
}
/* value of a literal under the partial assignment A (the assigns vector) */
static inline int sp_val(struct vec_us A, struct smt_lit p)
{
  U_t v = sp_var(p);
  if (v >= A.n) return SP_UNDEF;
  if (A.e[v] == SP_UNDEF) return SP_UNDEF;
  return ((A.e[v] == SP_TRUE) == sp_sign(p)) ? SP_TRUE : SP_FALSE;
}
/* sigma extends A */
static inline _Bool sg_ext(unsigned int sigma, struct vec_us A)
{
  for (U_t v = 0; v < XT_MAXV; v++)
    if (v < A.n && A.e[v] != SP_UNDEF && (((sigma >> v) & 1u) != 0) != (A.e[v] == SP_TRUE)) return 0;
  return 1;
}
static inline _Bool sg_sat_lits(unsigned int sigma, struct vec_lit ls)
{
  for (U_t i = 0; i < XT_MAXLITS; i++)
    if (i < ls.n && sg_lit(sigma, ls.e[i])) return 1;
  return 0;
}
static inline _Bool sg_sat_clause(unsigned int sigma, struct xt_clause c)
{
  for (U_t i = 0; i < XT_MAXLITS; i++)
    if (i < c.n && sg_lit(sigma, c.l[i])) return 1;
  return 0;
}
/* sigma satisfies the logged clauses [from, to) */
static inline _Bool sg_sat_log(unsigned int sigma, U_t from, U_t to)
{
  for (U_t i = 0; i < XT_MAXCL; i++)
    if (i >= from && i < to && !sg_sat_clause(sigma, xt_cl[i])) return 0;
  return 1;
}
static inline _Bool sg_all(unsigned int sigma, struct vec_lit ls)
{
  for (U_t i = 0; i < XT_MAXLITS; i++)
    if (i < ls.n && !sg_lit(sigma, ls.e[i])) return 0;
  return 1;
}
/* number of DISTINCT literals of the list that are true (a repeated literal is one literal: set semantics, which is what
 * the cardinality constructs implement by dropping repetitions) */
static inline U_t sg_count(unsigned int sigma, struct vec_lit ls)
{
  U_t c = 0;
  for (U_t i = 0; i < XT_MAXLITS; i++)
    if (i < ls.n && sg_lit(sigma, ls.e[i]))
    {
      _Bool dup = 0;
      for (U_t j = 0; j < XT_MAXLITS; j++)
        if (j < i && ls.e[j].x == ls.e[i].x) dup = 1;
      if (!dup) c++;
    }
  return c;
}

/* number of distinct literals of ls that are undecided under A */
static inline U_t sp_open_count(struct vec_us A, struct vec_lit ls)
{
  U_t distinct = 0;
  for (U_t i = 0; i < XT_MAXLITS; i++)
    if (i < ls.n && sp_val(A, ls.e[i]) == SP_UNDEF)
    {
      _Bool dup = 0;
      for (U_t j = 0; j < XT_MAXLITS; j++)
        if (j < i && ls.e[j].x == ls.e[i].x) dup = 1;
      if (!dup) distinct++;
    }
  return distinct;
}
static inline _Bool sp_any_root_true(struct vec_us A, struct vec_lit ls)
{
  for (U_t i = 0; i < XT_MAXLITS; i++)
    if (i < ls.n && sp_val(A, ls.e[i]) == SP_TRUE) return 1;
  return 0;
}
/* status of a clause under A, as new_clause must see it:
 *   0 falsified (no literal can be true)      1 satisfied by A, or a tautology among the undecided literals
 *   2 unit (exactly one distinct undecided literal, none true)       3 open (>= 2 distinct undecided literals) */
static inline int sp_status(struct vec_us A, struct vec_lit ls)
{
  U_t distinct = 0;
  _Bool taut = 0;
  for (U_t i = 0; i < XT_MAXLITS; i++)
    if (i < ls.n)
    {
      int v = sp_val(A, ls.e[i]);
      if (v == SP_TRUE) return 1;
      if (v == SP_UNDEF)
      {
        _Bool dup = 0;
        for (U_t j = 0; j < XT_MAXLITS; j++)
          if (j < i && sp_val(A, ls.e[j]) == SP_UNDEF)
          {
            if (ls.e[j].x == ls.e[i].x) dup = 1;
            if (ls.e[j].x == (ls.e[i].x ^ 1)) taut = 1;
          }
        if (!dup) distinct++;
      }
    }
  if (taut) return 1;
  return distinct == 0 ? 0 : (distinct == 1 ? 2 : 3);
}
/* the undecided literal of a unit clause */
static inline struct smt_lit sp_unit_lit(struct vec_us A, struct vec_lit ls)
{
  struct smt_lit r; r.x = 0;
  for (U_t i = 0; i < XT_MAXLITS; i++)
    if (i < ls.n && sp_val(A, ls.e[i]) == SP_UNDEF) r = ls.e[i];
  return r;
}
/* B equals A except that variable v (if v < size) now has value val */
static inline _Bool sp_assigns_upd(struct vec_us A, struct vec_us B, U_t v, int val)
{
  if (A.n != B.n) return 0;
  for (U_t i = 0; i < XT_MAXV; i++)
    if (i < A.n && B.e[i] != (i == v ? val : A.e[i])) return 0;
  return 1;
}
static inline _Bool sp_assigns_same(struct vec_us A, struct vec_us B) { return sp_assigns_upd(A, B, (U_t)-1, 0); }
/* B has the variables of A with the same values, plus (B.n - A.n) new ones, all Undefined */
static inline _Bool sp_assigns_grown(struct vec_us A, struct vec_us B)
{
  if (B.n < A.n) return 0;
  for (U_t i = 0; i < XT_MAXV; i++)
    if (i < B.n && B.e[i] != (i < A.n ? A.e[i] : SP_UNDEF)) return 0;
  return 1;
}
/* the logged clause consists of exactly the literals of `lits` that are undecided under A (as a set: order and repetitions
 * are the implementation's business).  Structural, so it fixes the truth of the logged clause under EVERY assignment that
 * extends A, not only under the ghost xt_sigma. */
static inline _Bool sp_logged_open_part(struct vec_us A, struct vec_lit lits, struct xt_clause c)
{
  if (c.n > XT_MAXLITS) return 0;
  for (U_t i = 0; i < XT_MAXLITS; i++)
    if (i < c.n)
    {
      _Bool from = 0;
      for (U_t j = 0; j < XT_MAXLITS; j++)
        if (j < lits.n && lits.e[j].x == c.l[i].x && sp_val(A, lits.e[j]) == SP_UNDEF) from = 1;
      if (!from) return 0;
    }
  for (U_t j = 0; j < XT_MAXLITS; j++)
    if (j < lits.n && sp_val(A, lits.e[j]) == SP_UNDEF)
    {
      _Bool in = 0;
      for (U_t i = 0; i < XT_MAXLITS; i++)
        if (i < c.n && c.l[i].x == lits.e[j].x) in = 1;
      if (!in) return 0;
    }
  return 1;
}
/* the whole postcondition of sat_core::new_clause(lits) at root level, computed in one pass (it is assumed at every call
 * site of the callers, so it must be cheap): A0/A1 the assigns vector before/after, n0/n1 the clause-log length before/after */
static inline _Bool sp_new_clause_post(struct vec_us A0, struct vec_us A1, struct vec_lit lits, U_t n0, U_t n1, _Bool ret, unsigned int sigma)
{
  int st = sp_status(A0, lits);
  if (ret != (st != 0)) return 0;
  if (st == 3)
    return n1 == n0 + 1 && sp_assigns_same(A0, A1) && sp_logged_open_part(A0, lits, xt_cl[n0 < XT_MAXCL ? n0 : 0]);
  if (st == 2)
  {
    struct smt_lit u = sp_unit_lit(A0, lits);
    return n1 == n0 && sp_assigns_upd(A0, A1, sp_var(u), sp_sign(u) ? SP_TRUE : SP_FALSE);
  }
  return n1 == n0 && sp_assigns_same(A0, A1);
}
static inline _Bool sp_lits_ok(struct vec_us A, struct vec_lit ls, U_t maxn)
{
  if (ls.n > maxn) return 0;
  for (U_t i = 0; i < XT_MAXLITS; i++)
    if (i < ls.n && sp_var(ls.e[i]) >= A.n) return 0;
  return 1;
}
/* root-level state: variable 0 is the false constant, every value is a legal lbool */
static inline _Bool sp_assigns_wf(struct vec_us A, U_t maxv)
{
  if (A.n < 1 || A.n > maxv) return 0;
  if (A.e[0] != SP_FALSE) return 0;
  for (U_t i = 0; i < XT_MAXV; i++)
    if (i < A.n && A.e[i] > 2) return 0;
  return 1;
}
static inline _Bool sp_rec_lits(int base, struct vec_lit ls)
{
  xt_recu(base, (unsigned long)ls.n);
  for (U_t i = 0; i < XT_MAXLITS; i++)
    if (i < ls.n) xt_recu(base + 1 + (int)i, (unsigned long)ls.e[i].x);
  return 1;
}
static inline _Bool sp_rec_assigns(int base, struct vec_us A)
{
  xt_recu(base, (unsigned long)A.n);
  for (U_t i = 0; i < XT_MAXV; i++)
    if (i < A.n) xt_recu(base + 1 + (int)i, (unsigned long)A.e[i]);
  return 1;
}
#endif
