"""C13, histories of two requests (the expression cache is hit or missed: both argument lists are symbolic).

Lemma jobs: the REAL bodies of both constructs (and of whatever they call among themselves) run in sequence on one network
that starts with an empty cache; new_var / new_clause are replaced by their contracts.  Obligations, over the WHOLE clause log
of both calls: each returned literal is (equivalent to | implies) its formula in every model, old root values are untouched,
and every assignment of the pre-existing variables can be extended to the new variables so that all the clauses hold and each
literal whose formula holds is true (nothing is excluded — in particular not by the later call re-using or strengthening the
literal the earlier one handed out)."""
from vlib.engine import Job

KIND = {'eq': 'iff', 'conj': 'iff', 'disj': 'iff', 'amo': 'imp', 'exo': 'imp'}
FORM = {'eq': '(sg_lit(S, l%d) == sg_lit(S, r%d))', 'conj': 'sg_all(S, ls%d)', 'disj': 'sg_sat_lits(S, ls%d)',
        'amo': '(sg_count(S, ls%d) <= 1)', 'exo': '(sg_count(S, ls%d) == 1)'}
CPP = {'eq': 'sg(s, l%d) == sg(s, r%d)', 'conj': 'all_of(s, ls%d)', 'disj': 'any_of(s, ls%d)', 'amo': 'count_of(s, ls%d) <= 1', 'exo': 'count_of(s, ls%d) == 1'}
CNAME = {'eq': 'new_eq', 'conj': 'new_conj', 'disj': 'new_disj', 'amo': 'new_at_most_one', 'exo': 'new_exct_one'}

HARN = '''void xt_harness(void)
{
  __exc = 0;
  xt_init_globals();
  { unsigned int sg; xt_sigma = sg; }
  struct smt_sat_core s;
@STATE@  s.exprs.n = 0; xt_ncl = 0; __exc = 0;
  sp_rec_assigns(200, s.assigns); xt_recu(90, xt_sigma);
@DECL1@@DECL2@  struct vec_us A0 = s.assigns;
@CALL1@  __CPROVER_assert(__exc == 0, "first_call_noexcept");
@CALL2@  __CPROVER_assert(__exc == 0, "second_call_noexcept");
  __CPROVER_assert(sp_assigns_grown(A0, s.assigns), "root_assignment_unchanged");
  __CPROVER_assert(sp_var(ret1) < s.assigns.n && sp_var(ret2) < s.assigns.n, "results_in_range");
  _Bool m = sg_ext(xt_sigma, s.assigns) && sg_sat_log(xt_sigma, 0, xt_ncl);
  __CPROVER_assert(!m || @SEM1@, "first_result_keeps_its_meaning_after_the_second_request");
  __CPROVER_assert(!m || @SEM2@, "second_result_means_its_formula_whether_cached_or_new");
  U_t n0 = A0.n, nn = s.assigns.n - A0.n;
  __CPROVER_assert(nn <= XT_NEWV, "new_variables_bounded");
  unsigned int base = xt_sigma & ((1u << n0) - 1u);
  _Bool found = 0;
  for (unsigned int x = 0; x < (1u << XT_NEWV); x++)
    if (x < (1u << nn))
    {
      unsigned int t = base | (x << n0);
      if (sg_ext(t, s.assigns) && sg_sat_log(t, 0, xt_ncl) && (!@F1T@ || sg_lit(t, ret1)) && (!@F2T@ || sg_lit(t, ret2))) found = 1;
    }
  __CPROVER_assert(!sg_ext(xt_sigma, A0) || found, "no_assignment_of_the_existing_variables_is_excluded");
  __CPROVER_assert(xt_canary, "xt canary");
}
'''


def _fmt(f, i):
    return f % ((i,) * f.count('%d'))


def pair_job(C, name, c1, c2, nl, newvars, maxcl, exprs_cap, str_cap, tmo=3000, open_roots=False, unwind=None):
    """C: the c13 module namespace (targets, contracts, defines())"""
    T = {'eq': C.EQ_T, 'conj': C.CONJ_T, 'disj': C.DISJ_T, 'amo': C.AMO_T, 'exo': C.EXO_T}

    def form(c, i, S):
        return _fmt(FORM[c], i).replace('S', S)

    def decl(c, i):
        b = 20 * (i - 1)
        if c == 'eq':
            return ('  struct smt_lit l%d, r%d; __CPROVER_assume(sp_var(l%d) < s.assigns.n && sp_var(r%d) < s.assigns.n);\n'
                    '  xt_recu(%d, l%d.x); xt_recu(%d, r%d.x);\n' % (i, i, i, i, b, i, b + 1, i))
        und = ''
        if open_roots:   # literals of undecided variables only (variable 0 is the constant)
            und = ' for (int k = 0; k < %d; k++) __CPROVER_assume(k >= ls%d.n || sp_var(ls%d.e[k]) >= 1);' % (nl, i, i)
        return '  struct vec_lit ls%d; __CPROVER_assume(sp_lits_ok(s.assigns, ls%d, %d));%s sp_rec_lits(%d, ls%d);\n' % (i, i, nl, und, b, i)

    def call(c, i):
        if c == 'eq':
            return '  struct smt_lit ret%d = %s(&s, &l%d, &r%d);\n' % (i, T[c], i, i)
        return '  struct smt_lit ret%d = %s(&s, ls%d);\n' % (i, T[c], i)

    def sem(c, i, S):
        if KIND[c] == 'iff':
            return '(sg_lit(%s, ret%d) == %s)' % (S, i, form(c, i, S))
        return '(!sg_lit(%s, ret%d) || %s)' % (S, i, form(c, i, S))

    if open_roots:
        # the pre-existing variables are all undecided (concrete root state): the root-value shortcuts of the cardinality
        # constructs are the single-call jobs' business; here only the argument lists and the assignment are symbolic
        state = '  s.assigns.n = XT_NV0; s.assigns.e[0] = 0; for (int v = 1; v < XT_NV0; v++) s.assigns.e[v] = 2;\n  s.trail_lim.n = 0;\n'
    else:
        state = '  __CPROVER_assume(sp_assigns_wf(s.assigns, XT_NV0) && s.trail_lim.n == 0);\n'
    harn = HARN.replace('@STATE@', state)
    for k, v in (('@DECL1@', decl(c1, 1)), ('@DECL2@', decl(c2, 2)), ('@CALL1@', call(c1, 1)), ('@CALL2@', call(c2, 2)),
                 ('@SEM1@', sem(c1, 1, 'xt_sigma')), ('@SEM2@', sem(c2, 2, 'xt_sigma')), ('@F1T@', form(c1, 1, 't')), ('@F2T@', form(c2, 2, 't'))):
        harn = harn.replace(k, v)
    d = dict(C.defines(3, maxv=3 + newvars, maxcl=maxcl, maxlits=max(nl + 1, 3), exprs_cap=exprs_cap, str_cap=str_cap), XT_NEWV=newvars, CM_SQRT_UNREACHABLE=1)
    caps = {'vec_lit': d['XT_MAXLITS'], 'vec_us': d['XT_MAXV'], 'vec_U': 2, 'umap_str_lit': exprs_cap}

    def cdecl(c, i):
        b = 20 * (i - 1)
        if c == 'eq':
            return '  lit l%d = mk_lit_x(S[%d]), r%d = mk_lit_x(S[%d]);\n' % (i, b, i, b + 1)
        return '  std::vector<lit> ls%d = mk_lits(%d);\n' % (i, b)

    def ccall(c, i):
        return '  lit ret%d = sat->%s(%s);\n' % (i, CNAME[c], ('l%d, r%d' % (i, i)) if c == 'eq' else 'ls%d' % i)

    stanza = (C.REPLAY_HEAD + cdecl(c1, 1) + cdecl(c2, 2) + ccall(c1, 1) + ccall(c2, 2) +
              '  auto F1 = [&](unsigned long s) { return %s; }; auto F2 = [&](unsigned long s) { return %s; };\n' % (_fmt(CPP[c1], 1), _fmt(CPP[c2], 2)) +
              '  pair_result pr = check_pair(*sat, A0, ret1, F1, %s, ret2, F2, %s);\n' % ('false' if KIND[c1] == 'iff' else 'true', 'false' if KIND[c2] == 'iff' else 'true') +
              '  ok = pr.ok; observed = "%s(...) = " + show(ret1) + " then %s(...) = " + show(ret2) + ":" + pr.why;\n' % (CNAME[c1], CNAME[c2]) +
              '  required = "both literals keep the meaning of their formula in every model and no assignment of the existing variables is excluded";\n')
    rep = [C.NEW_VAR, C.NEW_CLAUSE, C.AMO_T + '_rec']
    cc = {C.NEW_VAR: C.C_NEW_VAR, C.NEW_CLAUSE: C.C_NEW_CLAUSE, C.AMO_T + '_rec': C.UNREACHABLE}
    if open_roots and 'conj' not in (c1, c2):
        # no variable is decided at root level, so the cardinality constructs never take their root-true shortcut, the only
        # place where they call new_conj: the call is replaced by a contract whose precondition is `false` (its reachability
        # is thereby an obligation of this job)
        rep.append(C.CONJ_T)
        cc[C.CONJ_T] = C.UNREACHABLE
    return Job('sat.pair_' + name, T[c2], tus=C.TUS, contract=None, enforce=False, defines=d, unwind=unwind or d['XT_MAXLITS'] + 1,
               model_unwind=max(d['XT_MAXV'], d['XT_MAXCL'], exprs_cap, str_cap, (1 << newvars), 9) + 1, spec_headers=C.SPEC,
               callee_contracts=cc, replace=rep,
               call_alias={(C.AMO_T, C.AMO_T): C.AMO_T + '_rec'}, roots=[T[c1], T[c2]],
               exceptions=True, caps=caps, abstract_fields=C.ABS, harness=harn, timeout=tmo, mem_gb=(32 if open_roots else (48 if 'amo' in (c1, c2) or 'exo' in (c1, c2) else 16)), mem_est=(12 if open_roots else (40 if 'amo' in (c1, c2) or 'exo' in (c1, c2) else 4)), solver=C.SOLVER,
               replay={'driver': 'sat', 'stanza': stanza},
               bounded='histories of exactly two requests on a network of <= 2 existing variables (%s) with an empty cache; ' % ('all undecided, argument literals over them only' if open_roots else 'symbolic root values') +
                       'argument lists of <= %d symbolic literals' % nl)


def jobs(C, tier):
    out = [pair_job(C, 'eq_eq', 'eq', 'eq', 2, 2, 8, 6, 6),
           pair_job(C, 'conj_conj', 'conj', 'conj', 2, 2, 6, 6, 6),
           pair_job(C, 'disj_disj', 'disj', 'disj', 2, 2, 6, 6, 6),
           pair_job(C, 'amo_exo', 'amo', 'exo', 2, 4, 10, 12, 6, open_roots=True, unwind=3),
           pair_job(C, 'exo_amo', 'exo', 'amo', 2, 4, 10, 12, 6, open_roots=True, unwind=3)]
    out.append(pair_job(C, 'exo_exo', 'exo', 'exo', 2, 6, 16, 16, 6, open_roots=True, unwind=3))
    out.append(pair_job(C, 'amo_amo', 'amo', 'amo', 2, 2, 6, 8, 6, open_roots=True, unwind=3))
    if tier == 'thorough':   # 12 minutes and ~40 GB on its own: too long for the check meant to run on every change
        # the root-true shortcut of the cardinality constructs interacting with the cache: symbolic root values, <= 3 literals
        out.append(pair_job(C, 'amo_amo_root_values', 'amo', 'amo', 3, 2, 8, 8, 8, open_roots=False, unwind=4))
    return out
