/* sat_undo_spec.h — trail-level views for sat_core::enqueue / pop_one / pop */
#ifndef SAT_UNDO_SPEC_H
#define SAT_UNDO_SPEC_H
#ifndef XT_NV
#define XT_NV 4
#endif
U_t xt_th_pops;   /* ghost: number of theory::pop notifications */

static inline U_t spt_var(struct smt_lit p) { return p.x >> 1; }
/* sizes agree, values are legal lbools, the trail holds distinct variables each of which is assigned */
static inline _Bool spt_inv(struct smt_sat_core *s)
{
  if (s->assigns.n != XT_NV || s->level.n != XT_NV || s->reason.n != XT_NV || s->trail.n > XT_NV) return 0;
  for (U_t v = 0; v < XT_NV; v++) if (s->assigns.e[v] > 2) return 0;
  for (U_t i = 0; i < XT_NV; i++)
    if (i < s->trail.n)
    {
      if (spt_var(s->trail.e[i]) >= XT_NV) return 0;
      if (s->assigns.e[spt_var(s->trail.e[i])] == 2) return 0;
      for (U_t j = 0; j < XT_NV; j++)
        if (j < i && spt_var(s->trail.e[j]) == spt_var(s->trail.e[i])) return 0;
    }
  return 1;
}
/* is variable v on the trail at a position >= from ? */
static inline _Bool spt_on_trail_from(struct vec_lit trail, U_t from, U_t v)
{
  for (U_t i = 0; i < XT_NV; i++)
    if (i >= from && i < trail.n && spt_var(trail.e[i]) == v) return 1;
  return 0;
}
/* after undoing the trail suffix [from, ..): those variables are Undefined / level 0 / no reason, all others as before */
static inline _Bool spt_undone(struct vec_us A0, struct vec_U L0, struct vec_constrp R0, struct vec_lit T0, U_t from,
                               struct vec_us A1, struct vec_U L1, struct vec_constrp R1, struct vec_lit T1)
{
  if (T1.n != from) return 0;
  for (U_t i = 0; i < XT_NV; i++) if (i < from && T1.e[i].x != T0.e[i].x) return 0;
  for (U_t v = 0; v < XT_NV; v++)
  {
    if (spt_on_trail_from(T0, from, v)) { if (A1.e[v] != 2 || L1.e[v] != 0 || R1.e[v] != 0) return 0; }
    else if (A1.e[v] != A0.e[v] || L1.e[v] != L0.e[v] || R1.e[v] != R0.e[v]) return 0;
  }
  return 1;
}
#endif
