/* dl_spec.h — views for the difference-logic contracts: a ghost integer valuation xt_x of the time points (xt_x[0] = 0 is
 * the origin), the ghost propositional assignment xt_sigma, exact evaluation of linear expressions on xt_x. */
#ifndef DL_SPEC_H
#define DL_SPEC_H
#include "lin_spec.h"
#ifndef XT_NTP
#define XT_NTP 4
#endif
I_t xt_x[XT_NTP];
unsigned int xt_sigma;

static inline _Bool sgd_lit(unsigned int sigma, struct smt_lit p)
{
  U_t v = p.x >> 1;
  if (v >= 16) return 0;
  return (((sigma >> v) & 1u) != 0) == ((p.x & 1) != 0);
}
static inline _Bool sp_x_ok(void)
{
  if (xt_x[0] != 0) return 0;
  for (U_t i = 0; i < XT_NTP; i++) if (xt_x[i] < -4 || xt_x[i] > 4) return 0;
  return 1;
}
static inline _Bool sp_lin_keys_ok(struct smt_lin l)
{
  for (U_t i = 0; i < LIN_MAX; i++) if (i < l.vars.n && l.vars.e[i].first >= XT_NTP) return 0;
  return 1;
}
/* coefficient of v in (a - b) as a fraction n/d with d > 0 */
struct sp_frac { WIDE_t n; WIDE_t d; };
static inline struct sp_frac sp_frac_sub(struct smt_rational a, struct smt_rational b)
{
  struct sp_frac r;
  r.n = (WIDE_t)a.num * (WIDE_t)b.den - (WIDE_t)b.num * (WIDE_t)a.den;
  r.d = (WIDE_t)a.den * (WIDE_t)b.den;
  return r;
}
static inline struct sp_frac sp_diff_coeff(struct smt_lin a, struct smt_lin b, U_t v) { return sp_frac_sub(sp_coeff(a, v), sp_coeff(b, v)); }
static inline struct sp_frac sp_diff_const(struct smt_lin a, struct smt_lin b) { return sp_frac_sub(a.known_term, b.known_term); }
/* sign of a(x) - b(x) on the ghost valuation: every term brought to the common denominator D = prod of all d's */
static inline int sp_diff_sign(struct smt_lin a, struct smt_lin b)
{
  struct sp_frac k = sp_diff_const(a, b);
  WIDE_t num = k.n, den = k.d;          /* running fraction num/den, den > 0 */
  for (U_t v = 0; v < XT_NTP; v++)
  {
    struct sp_frac c = sp_diff_coeff(a, b, v);
    num = num * c.d + c.n * (WIDE_t)xt_x[v] * den;
    den = den * c.d;
  }
  return num < 0 ? -1 : (num > 0 ? 1 : 0);
}
/* number of time points with a non-zero coefficient in a - b */
static inline U_t sp_diff_nvars(struct smt_lin a, struct smt_lin b)
{
  U_t c = 0;
  for (U_t v = 0; v < XT_NTP; v++) if (sp_diff_coeff(a, b, v).n != 0) c++;
  return c;
}
/* a - b is an integer difference-logic expression:  k,  c*x + k  or  c*(x - y) + k  with k/c an integer */
static inline _Bool sp_idl_form(struct smt_lin a, struct smt_lin b)
{
  U_t n = sp_diff_nvars(a, b);
  struct sp_frac k = sp_diff_const(a, b);
  if (n == 0) return 1;
  if (n > 2) return 0;
  struct sp_frac c0; c0.n = 0; c0.d = 1;
  struct sp_frac c1; c1.n = 0; c1.d = 1;
  U_t seen = 0;
  for (U_t v = 0; v < XT_NTP; v++)
  {
    struct sp_frac c = sp_diff_coeff(a, b, v);
    if (c.n != 0) { if (seen == 0) c0 = c; else c1 = c; seen++; }
  }
  /* k / c0 = (k.n * c0.d) / (k.d * c0.n) must be an integer */
  WIDE_t qn = k.n * c0.d, qd = k.d * c0.n;
  if (qn % qd != 0) return 0;
  if (n == 2) return c0.n * c1.d == -(c1.n * c0.d);
  return 1;
}
/* the valuation respects every entry of the distance matrix:  x_j - x_i <= D[i][j] */
static inline _Bool sp_x_consistent(struct vec_vec_I D)
{
  for (U_t i = 0; i < XT_NTP; i++)
    for (U_t j = 0; j < XT_NTP; j++)
      if ((WIDE_t)xt_x[j] - (WIDE_t)xt_x[i] > (WIDE_t)D.e[i].e[j]) return 0;
  return 1;
}
static inline _Bool sp_D_shape(struct vec_vec_I D)
{
  if (D.n != XT_NTP) return 0;
  for (U_t i = 0; i < XT_NTP; i++)
  {
    if (D.e[i].n != XT_NTP) return 0;
    for (U_t j = 0; j < XT_NTP; j++) if (D.e[i].e[j] < -64 || D.e[i].e[j] > 64) return 0;
  }
  return 1;
}
/* ---- expression queries (bounds / distance / equates): what they must agree with ---- */
/* sign of a(x) - v on the ghost valuation */
static inline int sp_val_sign(struct smt_lin a, WIDE_t v)
{
  WIDE_t num = (WIDE_t)a.known_term.num, den = (WIDE_t)a.known_term.den;
  for (U_t t = 0; t < XT_NTP; t++)
  {
    struct smt_rational c = sp_coeff(a, t);
    num = num * (WIDE_t)c.den + (WIDE_t)c.num * (WIDE_t)xt_x[t] * den;
    den = den * (WIDE_t)c.den;
  }
  num = num - v * den;
  return num < 0 ? -1 : (num > 0 ? 1 : 0);
}
/* the interval an integer difference expression k, c*x + k or c*(x - y) + k ranges over, as derived from the variable-level
 * distances:  x in [-D[x][0], D[0][x]],  x - y in [-D[x][y], D[y][x]];  ok = 0 for every other expression */
#define SPQ_INF ((I_t)(CM_I_MAX / 2 - 1))   /* idl_theory::inf() at the job's integer width */
struct sp_bounds { _Bool ok; WIDE_t lo; WIDE_t hi; };
/* scale a variable-level bound (possibly +-inf()) by c and shift by k: an infinite bound stays infinite, with the sign of c */
static inline WIDE_t sp_scale(WIDE_t b, WIDE_t c, WIDE_t k)
{
  if (b >= (WIDE_t)SPQ_INF) return c > 0 ? (WIDE_t)SPQ_INF : -(WIDE_t)SPQ_INF;
  if (b <= -(WIDE_t)SPQ_INF) return c > 0 ? -(WIDE_t)SPQ_INF : (WIDE_t)SPQ_INF;
  return c * b + k;
}
static inline struct sp_bounds sp_bounds_of(struct vec_vec_I D, struct smt_lin l)
{
  struct sp_bounds r; r.ok = 0; r.lo = 0; r.hi = 0;
  if (l.known_term.den != 1) return r;
  WIDE_t k = (WIDE_t)l.known_term.num;
  U_t n = 0, x = 0, y = 0;
  WIDE_t cx = 0, cy = 0;
  for (U_t t = 0; t < XT_NTP; t++)
  {
    struct smt_rational c = sp_coeff(l, t);
    if (c.num != 0)
    {
      if (c.den != 1) return r;
      if (n == 0) { x = t; cx = (WIDE_t)c.num; } else { y = t; cy = (WIDE_t)c.num; }
      n++;
    }
  }
  if (n == 0) { r.ok = 1; r.lo = k; r.hi = k; return r; }
  WIDE_t rlo, rhi;
  if (n == 1) { rlo = -(WIDE_t)D.e[x].e[0]; rhi = (WIDE_t)D.e[0].e[x]; }
  else if (n == 2 && cx == -cy) { rlo = -(WIDE_t)D.e[x].e[y]; rhi = (WIDE_t)D.e[y].e[x]; }
  else return r;
  r.ok = 1;
  r.lo = cx > 0 ? sp_scale(rlo, cx, k) : sp_scale(rhi, cx, k);
  r.hi = cx > 0 ? sp_scale(rhi, cx, k) : sp_scale(rlo, cx, k);
  return r;
}
static inline _Bool sp_q_rec(struct vec_vec_I D)
{
  for (U_t i = 0; i < XT_NTP; i++)
    for (U_t j = 0; j < XT_NTP; j++) xt_rec(300 + (int)(i * XT_NTP + j), D.e[i].e[j]);
  for (U_t i = 0; i < XT_NTP; i++) xt_rec(400 + (int)i, xt_x[i]);
  return 1;
}
/* every distance within [-m, m]: keeps c * D + k inside the narrow I_t of the quick tier */
static inline _Bool sp_D_within(struct vec_vec_I D, I_t m)
{
  for (U_t i = 0; i < XT_NTP; i++)
    for (U_t j = 0; j < XT_NTP; j++) if (D.e[i].e[j] < -m || D.e[i].e[j] > m) return 0;
  return 1;
}
static inline _Bool sp_D_shape_q(struct vec_vec_I D)
{
  if (D.n != XT_NTP) return 0;
  for (U_t i = 0; i < XT_NTP; i++) if (D.e[i].n != XT_NTP) return 0;
  return 1;
}
/* the same, but an off-diagonal entry may also be the "no constraint" sentinel inf() */
static inline _Bool sp_D_within_or_inf(struct vec_vec_I D, I_t m)
{
  for (U_t i = 0; i < XT_NTP; i++)
    for (U_t j = 0; j < XT_NTP; j++)
      if (!(i != j && D.e[i].e[j] == SPQ_INF) && (D.e[i].e[j] < -m || D.e[i].e[j] > m)) return 0;
  return 1;
}
/* the negation of l (spec side), for distance(from, 0) == bounds(-from) */
static inline struct smt_lin sp_lin_neg(struct smt_lin l)
{
  for (U_t i = 0; i < LIN_MAX; i++) if (i < l.vars.n) l.vars.e[i].second.num = (I_t)-l.vars.e[i].second.num;
  l.known_term.num = (I_t)-l.known_term.num;
  return l;
}
/* the interval of a - b when it is an integer difference expression (coefficients of a - b as exact fractions) */
static inline struct sp_bounds sp_bounds_of_diff(struct vec_vec_I D, struct smt_lin a, struct smt_lin b)
{
  struct sp_bounds r; r.ok = 0; r.lo = 0; r.hi = 0;
  struct sp_frac kf = sp_diff_const(a, b);
  if (kf.n % kf.d != 0) return r;
  WIDE_t k = kf.n / kf.d;
  U_t n = 0, x = 0, y = 0;
  WIDE_t cx = 0, cy = 0;
  for (U_t t = 0; t < XT_NTP; t++)
  {
    struct sp_frac c = sp_diff_coeff(a, b, t);
    if (c.n != 0)
    {
      if (c.n % c.d != 0) return r;
      if (n == 0) { x = t; cx = c.n / c.d; } else { y = t; cy = c.n / c.d; }
      n++;
    }
  }
  if (n == 0) { r.ok = 1; r.lo = k; r.hi = k; return r; }
  WIDE_t rlo, rhi;
  if (n == 1) { rlo = -(WIDE_t)D.e[x].e[0]; rhi = (WIDE_t)D.e[0].e[x]; }
  else if (n == 2 && cx == -cy) { rlo = -(WIDE_t)D.e[x].e[y]; rhi = (WIDE_t)D.e[y].e[x]; }
  else return r;
  r.ok = 1;
  r.lo = cx > 0 ? sp_scale(rlo, cx, k) : sp_scale(rhi, cx, k);
  r.hi = cx > 0 ? sp_scale(rhi, cx, k) : sp_scale(rlo, cx, k);
  return r;
}
#endif
