/* ov_spec.h — object-variable views: a domain map (value -> literal), truth under the ghost assignment xt_sigma */
#ifndef OV_SPEC_H
#define OV_SPEC_H
#ifndef XT_DOM
#define XT_DOM 3
#endif
static inline _Bool sv_wf_dom(struct umap_var_valuep_lit m, struct vec_us A)
{
  if (m.n < 1 || m.n > XT_DOM) return 0;
  for (U_t k = 0; k < XT_DOM; k++)
    if (k < m.n)
    {
      if (sp_var(m.e[k].second) >= A.n) return 0;
      if (m.e[k].first == 0) return 0;
      for (U_t j = 0; j < XT_DOM; j++) if (j < k && (m.e[j].first == m.e[k].first || sp_var(m.e[j].second) == sp_var(m.e[k].second))) return 0;   /* distinct values, each controlled by its own variable */
    }
  return 1;
}
/* the root assignment is compatible with "exactly one value": at most one value literal is true, not all are false */
static inline _Bool sv_root_ok(struct vec_us A, struct umap_var_valuep_lit m)
{
  U_t t = 0, f = 0;
  for (U_t k = 0; k < XT_DOM; k++)
    if (k < m.n) { int v = sp_val(A, m.e[k].second); if (v == SP_TRUE) t++; if (v == SP_FALSE) f++; }
  return t <= 1 && f < m.n;
}
/* the pre-existing variables keep their root values (new ones may be decided by unit propagation) */
static inline _Bool sv_old_kept(struct vec_us A0, struct vec_us A1)
{
  if (A1.n < A0.n) return 0;
  for (U_t v = 0; v < XT_MAXV; v++) if (v < A0.n && A1.e[v] != A0.e[v]) return 0;
  return 1;
}
/* the two domains are controlled by disjoint sets of propositional variables (as for variables made by new_var(items)) */
static inline _Bool sv_no_shared_vars(struct umap_var_valuep_lit a, struct umap_var_valuep_lit b)
{
  for (U_t i = 0; i < XT_DOM; i++)
    for (U_t j = 0; j < XT_DOM; j++)
      if (i < a.n && j < b.n && sp_var(a.e[i].second) == sp_var(b.e[j].second)) return 0;
  return 1;
}
/* what was decided at root stays decided the same way (undecided variables may become root consequences) */
static inline _Bool sv_decided_kept(struct vec_us A0, struct vec_us A1)
{
  if (A1.n < A0.n) return 0;
  for (U_t v = 0; v < XT_MAXV; v++) if (v < A0.n && A0.e[v] != SP_UNDEF && A1.e[v] != A0.e[v]) return 0;
  return 1;
}
/* number of domain values whose literal is true under sigma */
static inline U_t sv_count(unsigned int sigma, struct umap_var_valuep_lit m)
{
  U_t c = 0;
  for (U_t k = 0; k < XT_DOM; k++) if (k < m.n && sg_lit(sigma, m.e[k].second)) c++;
  return c;
}
/* the two object variables take the same value under sigma (each assumed to take exactly one) */
static inline _Bool sv_same_value(unsigned int sigma, struct umap_var_valuep_lit a, struct umap_var_valuep_lit b)
{
  for (U_t i = 0; i < XT_DOM; i++)
    for (U_t j = 0; j < XT_DOM; j++)
      if (i < a.n && j < b.n && a.e[i].first == b.e[j].first && sg_lit(sigma, a.e[i].second) && sg_lit(sigma, b.e[j].second)) return 1;
  return 0;
}
static inline _Bool sv_disjoint(struct umap_var_valuep_lit a, struct umap_var_valuep_lit b)
{
  for (U_t i = 0; i < XT_DOM; i++)
    for (U_t j = 0; j < XT_DOM; j++)
      if (i < a.n && j < b.n && a.e[i].first == b.e[j].first) return 0;
  return 1;
}
static inline struct smt_lit sv_lit_of(struct umap_var_valuep_lit m, struct smt_var_value *val)
{
  struct smt_lit r; r.x = 1;   /* FALSE_lit */
  for (U_t k = 0; k < XT_DOM; k++) if (k < m.n && m.e[k].first == val) r = m.e[k].second;
  return r;
}
static inline _Bool sv_has(struct umap_var_valuep_lit m, struct smt_var_value *val)
{
  for (U_t k = 0; k < XT_DOM; k++) if (k < m.n && m.e[k].first == val) return 1;
  return 0;
}
static inline _Bool sv_in_items(struct vec_var_valuep items, struct smt_var_value *val)
{
  for (U_t k = 0; k < XT_DOM; k++) if (k < items.n && items.e[k] == val) return 1;
  return 0;
}
static inline _Bool sv_in_set(struct uset_var_valuep s, struct smt_var_value *val)
{
  for (U_t k = 0; k < XT_DOM; k++) if (k < s.n && s.e[k] == val) return 1;
  return 0;
}
/* the map's keys are exactly the items; every literal is a distinct fresh positive variable in [n0, n1) (or TRUE_lit for a singleton) */
static inline _Bool sv_dom_of_items(struct umap_var_valuep_lit m, struct vec_var_valuep items)
{
  for (U_t k = 0; k < XT_DOM; k++)
  {
    if (k < m.n && !sv_in_items(items, m.e[k].first)) return 0;
    if (k < items.n && !sv_has(m, items.e[k])) return 0;
  }
  return 1;
}
/* the reported domain is exactly the set of values whose literal is not false under the current assignment */
static inline _Bool sv_value_is(struct uset_var_valuep s, struct umap_var_valuep_lit m, struct vec_us A)
{
  for (U_t k = 0; k < XT_DOM; k++)
  {
    if (k < m.n && (sp_val(A, m.e[k].second) != SP_FALSE) != sv_in_set(s, m.e[k].first)) return 0;
    if (k < s.n && !sv_has(m, s.e[k])) return 0;
  }
  return 1;
}
/* the domain is exactly vals[i] -> lits[i] */
static inline _Bool sv_dom_of_pairs(struct umap_var_valuep_lit m, struct vec_lit lits, struct vec_var_valuep vals)
{
  if (m.n != vals.n) return 0;
  for (U_t k = 0; k < XT_DOM; k++)
  {
    if (k < m.n && !sv_in_items(vals, m.e[k].first)) return 0;
    if (k < vals.n && !(sv_has(m, vals.e[k]) && sv_lit_of(m, vals.e[k]).x == lits.e[k].x)) return 0;
  }
  return 1;
}
/* the object variable id is recorded for propositional variable bv */
static inline _Bool sv_contained(struct umap_U_set_U m, U_t bv, U_t id)
{
  for (U_t k = 0; k < XT_DOM + 1; k++)
    if (k < m.n && m.e[k].first == bv)
      for (U_t j = 0; j < 2; j++) if (j < m.e[k].second.n && m.e[k].second.e[j] == id) return 1;
  return 0;
}
#endif
