/* dl_lit_spec.h — views for idl_theory::propagate(const lit &) (DESIGN §5/C10): the enforced-constraint map and the
 * conflict clause; uses dl_apsp_spec.h */
#ifndef DL_LIT_SPEC_H
#define DL_LIT_SPEC_H
#ifndef XT_MC
#define XT_MC 2
#endif
#ifndef XT_NV
#define XT_NV 4
#endif
enum { SPL_FALSE = 0, SPL_TRUE = 1, SPL_UNDEF = 2 };
static inline int spl_value(struct vec_us A, struct smt_lit p)
{
  U_t v = p.x >> 1;
  if (v >= A.n || A.e[v] == SPL_UNDEF) return SPL_UNDEF;
  return ((A.e[v] == SPL_TRUE) == ((p.x & 1) != 0)) ? SPL_TRUE : SPL_FALSE;
}
static inline _Bool spl_assigns_wf(struct vec_us A)
{
  if (A.n != XT_NV) return 0;
  for (U_t v = 0; v < XT_NV; v++) if (A.e[v] > 2) return 0;
  return A.e[0] == SPL_FALSE;
}
static inline _Bool spl_key_lt(struct pair_U_U a, struct pair_U_U b) { return a.first < b.first || (a.first == b.first && a.second < b.second); }
/* the enforced-constraint map: sorted, keys in range, at most XT_MC entries */
static inline _Bool spl_wf_C(struct map_pair_U_U_idl_distancep m)
{
  if (m.n > XT_MC) return 0;
  for (U_t k = 0; k < XT_MC; k++)
    if (k < m.n)
    {
      if (m.e[k].first.first >= XT_N || m.e[k].first.second >= XT_N) return 0;
      if (k + 1 < m.n && !spl_key_lt(m.e[k].first, m.e[k + 1].first)) return 0;
    }
  return 1;
}
static inline struct smt_idl_theory_idl_distance *spl_lookup_C(struct map_pair_U_U_idl_distancep m, U_t i, U_t j)
{
  struct smt_idl_theory_idl_distance *r = 0;
  for (U_t k = 0; k < XT_MC + 1; k++)
    if (k < m.n && m.e[k].first.first == i && m.e[k].first.second == j) r = m.e[k].second;
  return r;
}
/* b is a with the entry of (fi, fj) set to val; every other pair as before (fi >= XT_N: no pair is exempt) */
static inline _Bool spl_C_eq_except(struct map_pair_U_U_idl_distancep a, struct map_pair_U_U_idl_distancep b, U_t fi, U_t fj, struct smt_idl_theory_idl_distance *val)
{
  for (U_t i = 0; i < XT_N; i++)
    for (U_t j = 0; j < XT_N; j++)
      if (spl_lookup_C(b, i, j) != ((i == fi && j == fj) ? val : spl_lookup_C(a, i, j))) return 0;
  return 1;
}
/* every literal of the clause is false under A, and the last one is the negation of p */
static inline _Bool spl_conflict_clause_ok(struct vec_us A, struct vec_lit c, struct smt_lit p)
{
  if (c.n < 1 || c.n > XT_N) return 0;
  for (U_t k = 0; k < XT_N; k++)
    if (k < c.n && spl_value(A, c.e[k]) != SPL_FALSE) return 0;
  return c.e[c.n - 1].x == (p.x ^ 1);
}
/* counterexample recording for the native replay (slots 4, 400.., 500..) */
static inline _Bool spl_rec(struct vec_us A, struct map_pair_U_U_idl_distancep m, struct smt_lit p)
{
  xt_recu(4, (unsigned long)p.x);
  for (U_t v = 0; v < XT_NV; v++) xt_recu(400 + (int)v, (unsigned long)A.e[v]);
  xt_recu(500, (unsigned long)m.n);
  for (U_t k = 0; k < XT_MC; k++)
    if (k < m.n)
    {
      xt_recu(510 + 6 * (int)k, (unsigned long)m.e[k].first.first); xt_recu(511 + 6 * (int)k, (unsigned long)m.e[k].first.second);
      xt_recu(512 + 6 * (int)k, (unsigned long)m.e[k].second->b.x); xt_recu(513 + 6 * (int)k, (unsigned long)m.e[k].second->from);
      xt_recu(514 + 6 * (int)k, (unsigned long)m.e[k].second->to); xt_rec(515 + 6 * (int)k, m.e[k].second->dist);
    }
  return 1;
}
/* ---- the enforced constraints ARE the ghost edges (link invariant), and a conflict explanation is a negative cycle ---- */
/* constraint c, under the current assignment, is the edge k --w--> j:  true literal: to - from <= dist is edge from -> to;
 * false literal: its integer negation from - to <= -dist - 1 is edge to -> from */
static inline _Bool spl_owner_ok(struct vec_us A, struct smt_idl_theory_idl_distance *c, U_t k, U_t j, I_t w)
{
  if (c == 0) return 0;
  int v = spl_value(A, c->b);
  if (v == SPL_TRUE) return c->from == k && c->to == j && c->dist == w;
  if (v == SPL_FALSE) return c->to == k && c->from == j && -(WIDE_t)c->dist - 1 == (WIDE_t)w;
  return 0;
}
static inline _Bool spl_link(struct vec_us A, struct map_pair_U_U_idl_distancep m, struct vec_vec_I E)
{
  for (U_t k = 0; k < XT_N; k++)
    for (U_t j = 0; j < XT_N; j++)
      if (k != j && E.e[k].e[j] != XT_INF && !spl_owner_ok(A, spl_lookup_C(m, k, j), k, j, E.e[k].e[j])) return 0;
  return 1;
}
/* the clause c is exactly: for every hop (k -> cur) of the predecessor walk of row src back from dst, the currently false
 * form of the literal of the constraint enforced on that pair, then !p; the hops' ghost weights sum to D[src][dst], and
 * together with the closing edge (weight `closing`, dst -> src) the cycle is negative */
static inline _Bool spl_explains(struct vec_us A, struct map_pair_U_U_idl_distancep m, struct vec_vec_U P, struct vec_vec_I E, struct vec_vec_I D,
                                 U_t src, U_t dst, I_t closing, struct vec_lit c, struct smt_lit p)
{
  U_t cur = dst, n = 0;
  WIDE_t sum = 0;
  for (U_t s = 0; s < XT_N; s++)
    if (cur != src)
    {
      U_t k = P.e[src].e[cur];
      if (k >= XT_N) return 0;
      struct smt_idl_theory_idl_distance *o = spl_lookup_C(m, k, cur);
      if (o == 0) return 0;
      U_t want = spl_value(A, o->b) == SPL_TRUE ? (U_t)(o->b.x ^ 1) : o->b.x;
      if (n >= c.n || c.e[n].x != want) return 0;
      sum += (WIDE_t)E.e[k].e[cur];
      n++;
      cur = k;
    }
  if (cur != src) return 0;
  return c.n == n + 1 && c.e[n].x == (p.x ^ 1) && sum == (WIDE_t)D.e[src].e[dst] && sum + (WIDE_t)closing < 0;
}
#endif
