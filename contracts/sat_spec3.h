/* sat_spec3.h — contracts of the callees of new_clause (enqueue, clause::new_clause) */
#ifndef SAT_SPEC3_H
#define SAT_SPEC3_H
/* enqueue(p): already decided -> returns whether it is true, nothing changes; undecided -> becomes true, returns true */
static inline _Bool sp_enqueue_post(struct vec_us A0, struct vec_us A1, struct smt_lit p, _Bool ret)
{
  int v = sp_val(A0, p);
  if (v != SP_UNDEF) return ret == (v == SP_TRUE) && sp_assigns_same(A0, A1);
  return ret && sp_assigns_upd(A0, A1, sp_var(p), sp_sign(p) ? SP_TRUE : SP_FALSE);
}
static inline _Bool sp_clause_is(struct xt_clause c, struct vec_lit ls)
{
  if (c.n != ls.n) return 0;
  for (U_t i = 0; i < XT_MAXLITS; i++)
    if (i < ls.n && c.l[i].x != ls.e[i].x) return 0;
  return 1;
}
#endif
