#include "inf_rational.h"
