#pragma once
#define RIDDLE_EXPORT
