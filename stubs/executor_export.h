#pragma once
#define EXECUTOR_EXPORT
