#pragma once
#define INIT_STRING ""
