#pragma once
#define CORE_EXPORT
