#pragma once
#define JSON_EXPORT
