#pragma once
#define SOLVER_EXPORT
