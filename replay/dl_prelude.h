// prelude of the native replay drivers for idl_theory (compiled with -fno-access-control against /repo)
#pragma once
#include <cstdio>
#include <cstdlib>
#include <cstring>
#include <map>
#include <string>
#include <vector>
#include "sat_core.h"
#include "idl_theory.h"

static std::map<int, long> S;
static void xt_parse_slots(int argc, char **argv)
{
  for (int i = 1; i < argc; i++) { int s; long v; if (sscanf(argv[i], "%d=%ld", &s, &v) == 2) S[s] = v; }
}
using namespace smt;
// a theory over n time points whose private matrices are set from the slots (distances at base 100, predecessors at 200);
// the model's sentinel (xinf) is mapped to the real inf()
static idl_theory *build_idl(sat_core &sat, int n, long xinf)
{
  idl_theory *th = new idl_theory(sat, n);
  th->n_vars = n;
  for (int i = 0; i < n; i++)
    for (int j = 0; j < n; j++)
    {
      long d = S[100 + i * n + j];
      th->_dists[i][j] = (d == xinf) ? idl_theory::inf() : d;
      th->_preds[i][j] = (size_t)S[200 + i * n + j];
    }
  return th;
}
static std::string show_matrix(const std::vector<std::vector<I>> &m, int n)
{
  std::string s;
  for (int i = 0; i < n; i++) { s += "["; for (int j = 0; j < n; j++) s += (m[i][j] == idl_theory::inf() ? std::string("inf") : std::to_string(m[i][j])) + " "; s += "]"; }
  return s;
}

// ---- expression queries (C12): lin rebuilt from slots (base: n, then (key, num, den)*, base+20/21 constant term),
// the distance matrix from base 300 (no sentinel mapping: finite entries only), the ghost valuation from base 400
#include <stdexcept>
#include "lin.h"
static rational mk_rat(long n, long d) { rational r; r.num = n; r.den = d; return r; }
static lin mk_lin(int base)
{
  lin l;
  for (long i = 0; i < S[base]; i++) l.vars.emplace((var)S[base + 1 + 3 * i], mk_rat(S[base + 2 + 3 * i], S[base + 3 + 3 * i]));
  l.known_term = mk_rat(S[base + 20], S[base + 21]);
  return l;
}
#ifndef XT_QINF
#define XT_QINF 16382   /* the model's inf() at 16 bits */
#endif
static idl_theory *build_idl_q(sat_core &sat, int n)
{
  idl_theory *th = new idl_theory(sat, n);
  th->n_vars = n;
  for (int i = 0; i < n; i++) for (int j = 0; j < n; j++) th->_dists[i][j] = (S[300 + i * n + j] == XT_QINF) ? idl_theory::inf() : S[300 + i * n + j];
  return th;
}
static long q_scale(long b, long c, long k)
{
  if (b >= idl_theory::inf()) return c > 0 ? idl_theory::inf() : -idl_theory::inf();
  if (b <= -idl_theory::inf()) return c > 0 ? -idl_theory::inf() : idl_theory::inf();
  return c * b + k;
}
static rational lin_value(const lin &l, int n) { rational v = l.known_term; for (const auto &t : l.vars) v += t.second * rational(S[400 + t.first]); return v; }
static std::string show(const lin &l) { return to_string(l); }
// the interval derived from the variable-level distances for k, c*x + k, c*(x - y) + k (integer c, k); ok = false otherwise
struct q_bounds { bool ok; long lo, hi; };
static q_bounds bounds_of(const idl_theory &th, const lin &l)
{
  q_bounds r{false, 0, 0};
  if (l.known_term.den != 1) return r;
  long k = l.known_term.num;
  std::vector<std::pair<var, long>> ts;
  for (const auto &t : l.vars) { if (t.second.num == 0) continue; if (t.second.den != 1) return r; ts.push_back({t.first, (long)t.second.num}); }
  if (ts.empty()) return q_bounds{true, k, k};
  long rlo, rhi, c = ts[0].second;
  if (ts.size() == 1) { rlo = -th._dists[ts[0].first][0]; rhi = th._dists[0][ts[0].first]; }
  else if (ts.size() == 2 && ts[0].second == -ts[1].second) { rlo = -th._dists[ts[0].first][ts[1].first]; rhi = th._dists[ts[1].first][ts[0].first]; }
  else return r;
  return q_bounds{true, c > 0 ? q_scale(rlo, c, k) : q_scale(rhi, c, k), c > 0 ? q_scale(rhi, c, k) : q_scale(rlo, c, k)};
}
