// prelude of the native replay drivers for idl_theory (compiled with -fno-access-control against /repo)
#pragma once
#include <cstdio>
#include <cstdlib>
#include <cstring>
#include <map>
#include <string>
#include <vector>
#include "sat_core.h"
#include "idl_theory.h"

static std::map<int, long> S;
static void xt_parse_slots(int argc, char **argv)
{
  for (int i = 1; i < argc; i++) { int s; long v; if (sscanf(argv[i], "%d=%ld", &s, &v) == 2) S[s] = v; }
}
using namespace smt;
// a theory over n time points whose private matrices are set from the slots (distances at base 100, predecessors at 200);
// the model's sentinel (xinf) is mapped to the real inf()
static idl_theory *build_idl(sat_core &sat, int n, long xinf)
{
  idl_theory *th = new idl_theory(sat, n);
  th->n_vars = n;
  for (int i = 0; i < n; i++)
    for (int j = 0; j < n; j++)
    {
      long d = S[100 + i * n + j];
      th->_dists[i][j] = (d == xinf) ? idl_theory::inf() : d;
      th->_preds[i][j] = (size_t)S[200 + i * n + j];
    }
  return th;
}
static std::string show_matrix(const std::vector<std::vector<I>> &m, int n)
{
  std::string s;
  for (int i = 0; i < n; i++) { s += "["; for (int j = 0; j < n; j++) s += (m[i][j] == idl_theory::inf() ? std::string("inf") : std::to_string(m[i][j])) + " "; s += "]"; }
  return s;
}
