// prelude of the native replay drivers for rational / inf_rational / lin (compiled with -fno-access-control against /repo)
#pragma once
#include <cstdio>
#include <cstdlib>
#include <cstring>
#include <map>
#include <string>
#include "rational.h"
#include "inf_rational.h"
#include "lin.h"

static std::map<int, long> S;
static void xt_parse_slots(int argc, char **argv)
{
  for (int i = 1; i < argc; i++) { int s; long v; if (sscanf(argv[i], "%d=%ld", &s, &v) == 2) S[s] = v; }
}
// native instance of the spec predicates (exactly the header the contracts use), at full width
#define _Bool bool
#define I_BITS 64
typedef long I_t;
typedef __int128 WIDE_t;
typedef unsigned long U_t;
#define CM_H
#undef SPEC_W
#define SPEC_W 62
struct smt_rational { long num; long den; };
#include "arith_spec.h"

static smt::rational mk_rat(long n, long d) { smt::rational r; r.num = n; r.den = d; return r; }
static smt_rational view(const smt::rational &r) { smt_rational v; v.num = r.num; v.den = r.den; return v; }
static std::string show(const smt::rational &r) { return std::to_string(r.num) + "/" + std::to_string(r.den); }
