// prelude of the native replay drivers for rational / inf_rational / lin (compiled with -fno-access-control against /repo)
#pragma once
#include <cstdio>
#include <cstdlib>
#include <cstring>
#include <map>
#include <string>
#include "rational.h"
#include "inf_rational.h"
#include "lin.h"

static std::map<int, long> S;
static void xt_parse_slots(int argc, char **argv)
{
  for (int i = 1; i < argc; i++) { int s; long v; if (sscanf(argv[i], "%d=%ld", &s, &v) == 2) S[s] = v; }
}
// native instance of the spec predicates (exactly the header the contracts use), at full width
#define _Bool bool
#define I_BITS 64
typedef long I_t;
typedef __int128 WIDE_t;
typedef unsigned long U_t;
#define CM_H
#undef SPEC_W
#define SPEC_W 62
struct smt_rational { long num; long den; };
#include "arith_spec.h"

static smt::rational mk_rat(long n, long d) { smt::rational r; r.num = n; r.den = d; return r; }
static smt_rational view(const smt::rational &r) { smt_rational v; v.num = r.num; v.den = r.den; return v; }
static std::string show(const smt::rational &r) { return std::to_string(r.num) + "/" + std::to_string(r.den); }

struct smt_inf_rational { smt_rational rat; smt_rational inf; };
#include "infrat_spec.h"
static smt::inf_rational mk_inf(long rn, long rd, long in, long id) { smt::inf_rational x; x.rat = mk_rat(rn, rd); x.inf = mk_rat(in, id); return x; }
static smt_inf_rational view(const smt::inf_rational &x) { smt_inf_rational v; v.rat = view(x.rat); v.inf = view(x.inf); return v; }
static std::string show(const smt::inf_rational &x) { return show(x.rat) + " + " + show(x.inf) + "eps"; }

// lin: rebuilt from slots  base: n, then (key, num, den)*, base+20/21 constant term
static smt::lin mk_lin(int base)
{
  smt::lin l;
  for (long i = 0; i < S[base]; i++) l.vars.emplace((smt::var)S[base + 1 + 3 * i], mk_rat(S[base + 2 + 3 * i], S[base + 3 + 3 * i]));
  l.known_term = mk_rat(S[base + 20], S[base + 21]);
  return l;
}
static smt::rational coeff(const smt::lin &l, smt::var v) { auto it = l.vars.find(v); return it == l.vars.end() ? smt::rational(0) : it->second; }
static std::string show(const smt::lin &l)
{
  std::string s;
  for (const auto &t : l.vars) s += show(t.second) + "*x" + std::to_string(t.first) + " + ";
  return s + show(l.known_term);
}
template <typename F>
static bool lin_all_vars(const smt::lin &r, const smt::lin &a, const smt::lin &b, F f)
{
  std::map<smt::var, int> ks;
  for (const auto &t : r.vars) ks[t.first] = 1;
  for (const auto &t : a.vars) ks[t.first] = 1;
  for (const auto &t : b.vars) ks[t.first] = 1;
  ks[12345] = 1;
  for (const auto &k : ks) if (!f(k.first)) return false;
  return true;
}
static bool lin_coeffs_wf(const smt::lin &l) { for (const auto &t : l.vars) if (!wf_rat(view(t.second))) return false; return wf_rat(view(l.known_term)); }
