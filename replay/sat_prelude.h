// prelude of the native replay drivers for sat_core (compiled with -fno-access-control against /repo)
#pragma once
#include <cstdio>
#include <cstdlib>
#include <cstring>
#include <functional>
#include <map>
#include <set>
#include <string>
#include <vector>
#include "sat_core.h"
#include "clause.h"

static std::map<int, long> S;
static void xt_parse_slots(int argc, char **argv)
{
  for (int i = 1; i < argc; i++) { int s; long v; if (sscanf(argv[i], "%d=%ld", &s, &v) == 2) S[s] = v; }
}
using namespace smt;
static lit mk_lit_x(long x) { lit p; p.x = (size_t)x; return p; }
static std::string show(const lit &p) { return to_string(p); }
static std::string show(const std::vector<lit> &ls) { std::string s = "["; for (auto &l : ls) s += to_string(l) + " "; return s + "]"; }

// a root-level network with S[base] variables whose root values are S[base+1+v] (0 false, 1 true, 2 undefined)
static sat_core *build_sat(int base)
{
  sat_core *sat = new sat_core();
  for (long v = 1; v < S[base]; v++) sat->new_var();
  for (long v = 1; v < S[base]; v++)
    if (S[base + 1 + v] != 2) sat->new_clause({lit((var)v, S[base + 1 + v] == 1)});
  return sat;
}
static std::vector<lit> mk_lits(int base) { std::vector<lit> ls; for (long i = 0; i < S[base]; i++) ls.push_back(mk_lit_x(S[base + 1 + i])); return ls; }

static bool sg(unsigned long sigma, const lit &p) { return (((sigma >> variable(p)) & 1) != 0) == sign(p); }
static bool sg_ext(unsigned long sigma, const std::vector<lbool> &A)
{
  for (size_t v = 0; v < A.size(); v++) if (A[v] != Undefined && (((sigma >> v) & 1) != 0) != (A[v] == True)) return false;
  return true;
}
// sigma satisfies the stored clauses with index >= from
static bool sg_sat_db(unsigned long sigma, const sat_core &sat, size_t from)
{
  for (size_t i = from; i < sat.constrs.size(); i++)
  {
    const clause *c = dynamic_cast<const clause *>(sat.constrs[i]);
    if (!c) continue;
    bool ok = false;
    for (const auto &l : c->lits) if (sg(sigma, l)) ok = true;
    if (!ok) return false;
  }
  return true;
}
// (1) every model of the network gives `ret` the value of the formula;
// (2) every assignment of the pre-existing variables that extended the old root assignment (and satisfied the old clauses)
//     can be extended to the new variables so that the new root assignment and all clauses hold and ret == formula
struct sem_result { bool sound, conservative; std::string why; };
static sem_result check_reified(const sat_core &sat, const std::vector<lbool> &A0, size_t ncl0, const lit &ret,
                                const std::function<bool(unsigned long)> &formula, bool only_implication)
{
  sem_result r{true, true, ""};
  size_t n0 = A0.size(), n1 = sat.assigns.size();
  for (unsigned long s = 0; s < (1ul << n1); s++)
    if (sg_ext(s, sat.assigns) && sg_sat_db(s, sat, 0))
    {
      bool f = formula(s), v = sg(s, ret);
      if (only_implication ? (v && !f) : (v != f)) { r.sound = false; r.why += " model sigma=" + std::to_string(s) + " gives the literal " + std::to_string(v) + " but the formula " + std::to_string(f) + ";"; break; }
    }
  for (unsigned long s0 = 0; s0 < (1ul << n0); s0++)
    if (sg_ext(s0, A0) && sg_sat_db(s0, sat, 0) == sg_sat_db(s0, sat, 0))
    {
      // old clauses only
      bool old_ok = true;
      for (size_t i = 0; i < ncl0 && old_ok; i++)
      {
        const clause *c = dynamic_cast<const clause *>(sat.constrs[i]);
        if (!c) continue;
        bool ok = false;
        for (const auto &l : c->lits) if (sg(s0, l)) ok = true;
        old_ok = ok;
      }
      if (!old_ok) continue;
      bool found = false;
      for (unsigned long x = 0; x < (1ul << (n1 - n0)) && !found; x++)
      {
        unsigned long s = s0 | (x << n0);
        if (sg_ext(s, sat.assigns) && sg_sat_db(s, sat, 0)) found = true;
      }
      if (!found) { r.conservative = false; r.why += " assignment sigma0=" + std::to_string(s0) + " of the existing variables is excluded by the request;"; break; }
    }
  return r;
}

static bool all_of(unsigned long s, const std::vector<lit> &ls) { for (auto &l : ls) if (!sg(s, l)) return false; return true; }
static bool any_of(unsigned long s, const std::vector<lit> &ls) { for (auto &l : ls) if (sg(s, l)) return true; return false; }
static size_t count_of(unsigned long s, const std::vector<lit> &ls) { std::set<size_t> t; for (auto &l : ls) if (sg(s, l)) t.insert(index(l)); return t.size(); }
// two requests in sequence: each literal keeps the meaning of its formula in every model of the final network, and every
// assignment of the pre-existing variables extends to a model in which each literal whose formula holds is true
struct pair_result { bool ok; std::string why; };
static pair_result check_pair(const sat_core &sat, const std::vector<lbool> &A0, const lit &r1, const std::function<bool(unsigned long)> &F1, bool imp1,
                              const lit &r2, const std::function<bool(unsigned long)> &F2, bool imp2)
{
  pair_result r{true, ""};
  size_t n0 = A0.size(), n1 = sat.assigns.size();
  for (size_t v = 0; v < n0; v++) if (sat.assigns[v] != A0[v]) { r.ok = false; r.why += " root value of b" + std::to_string(v) + " changed;"; }
  for (unsigned long s = 0; s < (1ul << n1); s++)
    if (sg_ext(s, sat.assigns) && sg_sat_db(s, sat, 0))
    {
      bool f1 = F1(s), v1 = sg(s, r1), f2 = F2(s), v2 = sg(s, r2);
      if (imp1 ? (v1 && !f1) : (v1 != f1)) { r.ok = false; r.why += " model sigma=" + std::to_string(s) + ": first literal " + std::to_string(v1) + " but its formula " + std::to_string(f1) + ";"; break; }
      if (imp2 ? (v2 && !f2) : (v2 != f2)) { r.ok = false; r.why += " model sigma=" + std::to_string(s) + ": second literal " + std::to_string(v2) + " but its formula " + std::to_string(f2) + ";"; break; }
    }
  for (unsigned long s0 = 0; s0 < (1ul << n0); s0++)
    if (sg_ext(s0, A0))
    {
      bool found = false;
      for (unsigned long x = 0; x < (1ul << (n1 - n0)) && !found; x++)
      {
        unsigned long s = s0 | (x << n0);
        found = sg_ext(s, sat.assigns) && sg_sat_db(s, sat, 0) && (!F1(s) || sg(s, r1)) && (!F2(s) || sg(s, r2));
      }
      if (!found) { r.ok = false; r.why += " assignment sigma0=" + std::to_string(s0) + " of the existing variables cannot be extended with every satisfied construct's literal true;"; break; }
    }
  return r;
}
