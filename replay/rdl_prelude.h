// prelude of the native replay drivers for rdl_theory's expression queries (compiled with -fno-access-control against /repo)
#pragma once
#include <cstdio>
#include <cstdlib>
#include <cstring>
#include <map>
#include <stdexcept>
#include <string>
#include <vector>
#include "sat_core.h"
#include "rdl_theory.h"
#include "lin.h"

static std::map<int, long> S;
static void xt_parse_slots(int argc, char **argv)
{
  for (int i = 1; i < argc; i++) { int s; long v; if (sscanf(argv[i], "%d=%ld", &s, &v) == 2) S[s] = v; }
}
using namespace smt;
static rational mk_rat(long n, long d) { rational r; r.num = n; r.den = d; return r; }
static lin mk_lin(int base)
{
  lin l;
  for (long i = 0; i < S[base]; i++) l.vars.emplace((var)S[base + 1 + 3 * i], mk_rat(S[base + 2 + 3 * i], S[base + 3 + 3 * i]));
  l.known_term = mk_rat(S[base + 20], S[base + 21]);
  return l;
}
// distances from base 300: four numbers (rat.num, rat.den, inf.num, inf.den) per entry, row by row
static rdl_theory *build_rdl(sat_core &sat, int n)
{
  rdl_theory *th = new rdl_theory(sat, n);
  th->n_vars = n;
  for (int i = 0; i < n; i++) for (int j = 0; j < n; j++)
  {
    int b = 300 + 4 * (i * n + j);
    inf_rational d; d.rat = mk_rat(S[b], S[b + 1]); d.inf = mk_rat(S[b + 2], S[b + 3]);
    th->_dists[i][j] = d;
  }
  return th;
}
static std::string show(const lin &l) { return to_string(l); }
static std::string show(const inf_rational &x) { return to_string(x); }
// the interval the variable-level distances give a difference expression: shape 3 = not a difference expression
struct r_bounds { int shape; inf_rational lo, hi; };
static inf_rational r_scale(const inf_rational &b, const rational &c, const rational &k) { return b * c + k; }
static r_bounds rbounds_of(const rdl_theory &th, const lin &l)
{
  std::vector<std::pair<var, rational>> ts;
  for (const auto &t : l.vars) if (t.second != rational::ZERO) ts.push_back({t.first, t.second});
  if (ts.empty()) return r_bounds{0, inf_rational(l.known_term), inf_rational(l.known_term)};
  inf_rational rlo, rhi; int shape;
  if (ts.size() == 1) { shape = 1; rlo = -th._dists[ts[0].first][0]; rhi = th._dists[0][ts[0].first]; }
  else if (ts.size() == 2 && ts[1].second == -ts[0].second) { shape = 2; rlo = -th._dists[ts[0].first][ts[1].first]; rhi = th._dists[ts[1].first][ts[0].first]; }
  else return r_bounds{3, inf_rational(), inf_rational()};
  const rational c = ts[0].second;
  if (c > rational::ZERO) return r_bounds{shape, r_scale(rlo, c, l.known_term), r_scale(rhi, c, l.known_term)};
  return r_bounds{shape, r_scale(rhi, c, l.known_term), r_scale(rlo, c, l.known_term)};
}
static bool same(const inf_rational &a, const inf_rational &b) { return a.rat == b.rat && (is_infinite(a.rat) || a.inf == b.inf); }
