/* cm.h — bounded C models of the libstdc++ pieces the extracted oRatio code uses (trusted base, see DESIGN §8).
 * Every container is a value type with fixed capacity; iterators are element pointers.
 * Capacity overflow is an explicit assertion ("cmodel capacity"), never an assumption. */
#ifndef CM_H
#define CM_H

#ifndef I_BITS
#define I_BITS 64
#endif
#ifndef U_BITS
#define U_BITS 64
#endif

#if I_BITS == 64
typedef long I_t;
typedef __int128 WIDE_t;
#else
typedef signed __CPROVER_bitvector[I_BITS] I_t;
typedef signed __CPROVER_bitvector[2 * I_BITS] WIDE_t;
#endif
#if U_BITS == 64
typedef unsigned long U_t;
#else
typedef unsigned __CPROVER_bitvector[U_BITS] U_t;
#endif

/* exception state (DESIGN §3.1): 0 = none */
extern int __exc;
enum { EXC_NONE = 0, EXC_UNKNOWN = 1, EXC_out_of_range = 2, EXC_invalid_argument = 3, EXC_unsolvable_exception = 4,
       EXC_inconsistency_exception = 5, EXC_runtime_error = 6, EXC_logic_error = 7, EXC_execution_exception = 8 };

/* std::gcd / std::lcm on I_t: gcd(|m|,|n|), gcd(0,0)=0; lcm = |m|/gcd*|n|, 0 if either is 0 */
static inline I_t cm_abs(I_t a) { return a < 0 ? (I_t)-a : a; }
static inline I_t cm_gcd(I_t m, I_t n)
{
  I_t a = cm_abs(m), b = cm_abs(n);
  while (b != 0) { I_t t = (I_t)(a % b); a = b; b = t; }
  return a;
}
static inline I_t cm_lcm(I_t m, I_t n)
{
  if (m == 0 || n == 0) return 0;
  I_t a = cm_abs(m), b = cm_abs(n);
  return (I_t)((I_t)(a / cm_gcd(a, b)) * b);
}

#define CM_LT_SCALAR(a, b) ((a) < (b))
#define CM_EQ_SCALAR(a, b) ((a) == (b))

#define CM_CAP_ASSERT(c) __CPROVER_assert((c), "cmodel capacity")

/* ---------------------------------------------------------------- std::vector<T> */
#define CM_VECTOR(NAME, T, CAP)                                                                            \
  struct NAME { U_t n; T e[CAP]; };                                                                        \
  static inline struct NAME NAME##_new(void) { struct NAME v; v.n = 0; return v; }                         \
  static inline U_t NAME##_size(struct NAME *v) { return v->n; }                                           \
  static inline _Bool NAME##_empty(struct NAME *v) { return v->n == 0; }                                   \
  static inline void NAME##_clear(struct NAME *v) { v->n = 0; }                                            \
  static inline T *NAME##_begin(struct NAME *v) { return &v->e[0]; }                                       \
  static inline T *NAME##_end(struct NAME *v) { return &v->e[0] + v->n; }                                  \
  static inline void NAME##_push_back(struct NAME *v, T x) { CM_CAP_ASSERT(v->n < CAP); v->e[v->n] = x; v->n = v->n + 1; } \
  static inline void NAME##_pop_back(struct NAME *v) { __CPROVER_assert(v->n > 0, "vector::pop_back on empty vector"); v->n = v->n - 1; } \
  static inline T *NAME##_back(struct NAME *v) { __CPROVER_assert(v->n > 0, "vector::back on empty vector"); return &v->e[v->n - 1]; } \
  static inline T *NAME##_front(struct NAME *v) { __CPROVER_assert(v->n > 0, "vector::front on empty vector"); return &v->e[0]; } \
  static inline T *NAME##_idx(struct NAME *v, U_t i) { __CPROVER_assert(i < v->n, "vector index in range"); return &v->e[i]; } \
  static inline struct NAME NAME##_new_n(U_t n, T x) { struct NAME v; CM_CAP_ASSERT(n <= CAP); v.n = n; for (U_t i = 0; i < n; i++) v.e[i] = x; return v; } \
  static inline void NAME##_resize(struct NAME *v, U_t n, T x) { CM_CAP_ASSERT(n <= CAP); for (U_t i = v->n; i < n; i++) v->e[i] = x; v->n = n; } \
  static inline void NAME##_assign_n(struct NAME *v, U_t n, T x) { CM_CAP_ASSERT(n <= CAP); for (U_t i = 0; i < n; i++) v->e[i] = x; v->n = n; } \
  static inline struct NAME NAME##_from_range(T *b, T *e) { struct NAME v; v.n = 0; for (T *p = b; p != e; p++) { CM_CAP_ASSERT(v.n < CAP); v.e[v.n] = *p; v.n = v.n + 1; } return v; } \
  static inline T *NAME##_erase(struct NAME *v, T *it) { __CPROVER_assert(it >= &v->e[0] && it < &v->e[0] + v->n, "vector::erase iterator valid"); \
    for (T *p = it; p + 1 != &v->e[0] + v->n; p++) *p = *(p + 1); v->n = v->n - 1; return it; }            \
  static inline T *NAME##_erase_range(struct NAME *v, T *b, T *e) { __CPROVER_assert(b >= &v->e[0] && b <= e && e <= &v->e[0] + v->n, "vector::erase range valid"); \
    U_t k = (U_t)(e - b); if (k != 0) { for (T *p = b; p + k != &v->e[0] + v->n; p++) *p = *(p + k); v->n = v->n - k; } return b; } \
  static inline T *NAME##_insert(struct NAME *v, T *it, T x) { CM_CAP_ASSERT(v->n < CAP); __CPROVER_assert(it >= &v->e[0] && it <= &v->e[0] + v->n, "vector::insert iterator valid"); \
    for (T *p = &v->e[0] + v->n; p != it; p--) *p = *(p - 1); *it = x; v->n = v->n + 1; return it; }      \
  static inline void NAME##_insert_range(struct NAME *v, T *it, T *b, T *e) { __CPROVER_assert(it == &v->e[0] + v->n, "cmodel: vector::insert(range) only modelled at end()"); \
    for (T *p = b; p != e; p++) { CM_CAP_ASSERT(v->n < CAP); v->e[v->n] = *p; v->n = v->n + 1; } }         \
  static inline void NAME##_swap(struct NAME *v, struct NAME *w) { struct NAME t = *v; *v = *w; *w = t; }

/* ---------------------------------------------------------------- std::map<K,V> as a sorted array of pairs */
#define CM_MAP(NAME, PAIR, K, V, CAP, LT, EQ)                                                              \
  struct NAME { U_t n; struct PAIR e[CAP]; };                                                              \
  static inline struct NAME NAME##_new(void) { struct NAME m; m.n = 0; return m; }                         \
  static inline U_t NAME##_size(struct NAME *m) { return m->n; }                                           \
  static inline _Bool NAME##_empty(struct NAME *m) { return m->n == 0; }                                   \
  static inline void NAME##_clear(struct NAME *m) { m->n = 0; }                                            \
  static inline struct PAIR *NAME##_begin(struct NAME *m) { return &m->e[0]; }                             \
  static inline struct PAIR *NAME##_end(struct NAME *m) { return &m->e[0] + m->n; }                        \
  static inline struct PAIR *NAME##_lower_bound(struct NAME *m, K k) { U_t i = 0; while (i < m->n && LT(m->e[i].first, k)) i++; return &m->e[0] + i; } \
  static inline struct PAIR *NAME##_upper_bound(struct NAME *m, K k) { U_t i = 0; while (i < m->n && !LT(k, m->e[i].first)) i++; return &m->e[0] + i; } \
  static inline struct PAIR *NAME##_find(struct NAME *m, K k) { U_t i = 0; while (i < m->n && !EQ(m->e[i].first, k)) i++; return &m->e[0] + i; } \
  static inline U_t NAME##_count(struct NAME *m, K k) { return NAME##_find(m, k) != NAME##_end(m) ? 1 : 0; } \
  static inline struct PAIR *NAME##_ins_at(struct NAME *m, struct PAIR *pos, K k, V v) { CM_CAP_ASSERT(m->n < CAP); \
    for (struct PAIR *p = &m->e[0] + m->n; p != pos; p--) *p = *(p - 1); pos->first = k; pos->second = v; m->n = m->n + 1; return pos; } \
  static inline struct PAIR *NAME##_emplace(struct NAME *m, K k, V v) { struct PAIR *pos = NAME##_lower_bound(m, k); \
    if (pos != NAME##_end(m) && EQ(pos->first, k)) return pos; return NAME##_ins_at(m, pos, k, v); }       \
  static inline struct PAIR *NAME##_insert_or_assign(struct NAME *m, K k, V v) { struct PAIR *pos = NAME##_lower_bound(m, k); \
    if (pos != NAME##_end(m) && EQ(pos->first, k)) { pos->second = v; return pos; } return NAME##_ins_at(m, pos, k, v); } \
  static inline V *NAME##_idx(struct NAME *m, K k, V dflt) { return &NAME##_emplace(m, k, dflt)->second; }  \
  static V NAME##_at_dummy;                                                                                \
  static inline V *NAME##_at(struct NAME *m, K k) { struct PAIR *p = NAME##_find(m, k); if (p == NAME##_end(m)) { __exc = EXC_out_of_range; return &NAME##_at_dummy; } return &p->second; } \
  static inline struct PAIR *NAME##_erase_it(struct NAME *m, struct PAIR *it) { __CPROVER_assert(it >= &m->e[0] && it < &m->e[0] + m->n, "map::erase iterator valid"); \
    for (struct PAIR *p = it; p + 1 != &m->e[0] + m->n; p++) *p = *(p + 1); m->n = m->n - 1; return it; }   \
  static inline U_t NAME##_erase_key(struct NAME *m, K k) { struct PAIR *p = NAME##_find(m, k); if (p == NAME##_end(m)) return 0; NAME##_erase_it(m, p); return 1; }

/* std::unordered_map: same observable API; iteration order (unspecified in C++) is the key order here */
#define CM_UMAP(NAME, PAIR, K, V, CAP, LT, EQ) CM_MAP(NAME, PAIR, K, V, CAP, LT, EQ)

/* ---------------------------------------------------------------- std::set<K> / std::unordered_set<K> */
#define CM_SET(NAME, K, CAP, LT, EQ)                                                                       \
  struct NAME { U_t n; K e[CAP]; };                                                                        \
  static inline struct NAME NAME##_new(void) { struct NAME s; s.n = 0; return s; }                         \
  static inline U_t NAME##_size(struct NAME *s) { return s->n; }                                           \
  static inline _Bool NAME##_empty(struct NAME *s) { return s->n == 0; }                                   \
  static inline void NAME##_clear(struct NAME *s) { s->n = 0; }                                            \
  static inline K *NAME##_begin(struct NAME *s) { return &s->e[0]; }                                       \
  static inline K *NAME##_end(struct NAME *s) { return &s->e[0] + s->n; }                                  \
  static inline K *NAME##_find(struct NAME *s, K k) { U_t i = 0; while (i < s->n && !EQ(s->e[i], k)) i++; return &s->e[0] + i; } \
  static inline U_t NAME##_count(struct NAME *s, K k) { return NAME##_find(s, k) != NAME##_end(s) ? 1 : 0; } \
  static inline void NAME##_insert(struct NAME *s, K k) { U_t i = 0; while (i < s->n && LT(s->e[i], k)) i++; \
    if (i < s->n && EQ(s->e[i], k)) return; CM_CAP_ASSERT(s->n < CAP); for (U_t j = s->n; j > i; j--) s->e[j] = s->e[j - 1]; s->e[i] = k; s->n = s->n + 1; } \
  static inline void NAME##_insert_range(struct NAME *s, K *b, K *e) { for (K *p = b; p != e; p++) NAME##_insert(s, *p); } \
  static inline struct NAME NAME##_from_range(K *b, K *e) { struct NAME s; s.n = 0; NAME##_insert_range(&s, b, e); return s; } \
  static inline K *NAME##_erase_it(struct NAME *s, K *it) { __CPROVER_assert(it >= &s->e[0] && it < &s->e[0] + s->n, "set::erase iterator valid"); \
    for (K *p = it; p + 1 != &s->e[0] + s->n; p++) *p = *(p + 1); s->n = s->n - 1; return it; }             \
  static inline U_t NAME##_erase_key(struct NAME *s, K k) { K *p = NAME##_find(s, k); if (p == NAME##_end(s)) return 0; NAME##_erase_it(s, p); return 1; }

#endif
