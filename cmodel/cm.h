/* cm.h — bounded C models of the libstdc++ pieces the extracted oRatio code uses (trusted base, see DESIGN §8).
 * Every container is a value type with fixed capacity; iterators are element pointers.
 * Capacity overflow is an explicit assertion ("cmodel capacity"), never an assumption. */
#ifndef CM_H
#define CM_H

#ifndef I_BITS
#define I_BITS 64
#endif
#ifndef U_BITS
#define U_BITS 64
#endif

#if I_BITS == 64
typedef long I_t;
typedef __int128 WIDE_t;
#else
#ifndef WIDE_BITS
#define WIDE_BITS (2 * I_BITS)
#endif
typedef signed __CPROVER_bitvector[I_BITS] I_t;
typedef signed __CPROVER_bitvector[WIDE_BITS] WIDE_t;
#endif
#if I_BITS == 64
#define CM_I_MAX 9223372036854775807L
#else
#define CM_I_MAX ((I_t)(((WIDE_t)1 << (I_BITS - 1)) - 1))
#endif
#if U_BITS == 64
typedef unsigned long U_t;
#else
typedef unsigned __CPROVER_bitvector[U_BITS] U_t;
#endif

#define CM_CAP_ASSERT(c) __CPROVER_assert((c), "cmodel capacity")

/* exception state (DESIGN §3.1): 0 = none */
extern int __exc;
enum { EXC_NONE = 0, EXC_UNKNOWN = 1, EXC_out_of_range = 2, EXC_invalid_argument = 3, EXC_unsolvable_exception = 4,
       EXC_inconsistency_exception = 5, EXC_runtime_error = 6, EXC_logic_error = 7, EXC_execution_exception = 8 };

/* std::gcd / std::lcm on I_t: gcd(|m|,|n|), gcd(0,0)=0; lcm = |m|/gcd*|n|, 0 if either is 0 */
void *malloc(__CPROVER_size_t);
/* an index the simplifier cannot see through (CBMC 6.11 pointer imprecision work-around, see xtract.NestedElem) */
static inline U_t cm_opq(U_t i) { U_t r; __CPROVER_assume(r == i); return r; }
static inline I_t cm_abs(I_t a) { return a < 0 ? (I_t)-a : a; }
static inline I_t cm_gcd(I_t m, I_t n)
{
  I_t a = cm_abs(m), b = cm_abs(n);
  while (b != 0) { I_t t = (I_t)(a % b); a = b; b = t; }
  return a;
}
static inline I_t cm_lcm(I_t m, I_t n)
{
  if (m == 0 || n == 0) return 0;
  I_t a = cm_abs(m), b = cm_abs(n);
  return (I_t)((I_t)(a / cm_gcd(a, b)) * b);
}

/* ---------------------------------------------------------------- std::string as a bounded token sequence (DESIGN §4 "String keys")
 * a string literal is one token (a constant chosen by the emitter: hash of its text); std::to_string(n) is one token
 * (CM_TOK_NUM | n).  Assumption (listed in the evidence): the strings the code builds from these pieces are uniquely
 * decodable, so equality / order of token sequences coincides with equality of the real strings. */
#ifndef CM_STR_CAP
#define CM_STR_CAP 12
#endif
typedef unsigned int cm_tok;
#define CM_TOK_NUM 0x40000000u
struct cm_string { U_t n; cm_tok t[CM_STR_CAP]; };
static inline struct cm_string cm_str_new(void) { struct cm_string s; s.n = 0; return s; }
static inline struct cm_string cm_str_lit(cm_tok tok) { struct cm_string s; s.n = 1; s.t[0] = tok; return s; }
static inline struct cm_string cm_str_num(unsigned long v) { struct cm_string s; __CPROVER_assert(v < CM_TOK_NUM, "cmodel: number token range"); s.n = 1; s.t[0] = CM_TOK_NUM | (cm_tok)v; return s; }
static inline struct cm_string cm_str_cat(struct cm_string a, struct cm_string b)
{
  CM_CAP_ASSERT(a.n + b.n <= CM_STR_CAP);
  for (U_t i = 0; i < CM_STR_CAP; i++) if (i >= a.n && i < a.n + b.n) a.t[i] = b.t[i - a.n];
  a.n = a.n + b.n;
  return a;
}
static inline struct cm_string *cm_str_append(struct cm_string *a, struct cm_string b) { *a = cm_str_cat(*a, b); return a; }
static inline _Bool cm_str_eq(struct cm_string a, struct cm_string b)
{
  if (a.n != b.n) return 0;
  for (U_t i = 0; i < CM_STR_CAP; i++) if (i < a.n && a.t[i] != b.t[i]) return 0;
  return 1;
}
static inline _Bool cm_str_lt(struct cm_string a, struct cm_string b)
{
  for (U_t i = 0; i < CM_STR_CAP; i++)
    if (i < a.n && i < b.n) { if (a.t[i] < b.t[i]) return 1; if (a.t[i] > b.t[i]) return 0; }
  return a.n < b.n;
}
static inline _Bool cm_str_empty(struct cm_string *a) { return a->n == 0; }
#define CM_LT_STR(a, b) cm_str_lt((a), (b))
#define CM_EQ_STR(a, b) cm_str_eq((a), (b))

#define CM_DBL_INF (1.0 / 0.0)
static inline _Bool cm_isfinite(double x) { return x == x && x != CM_DBL_INF && x != -CM_DBL_INF; }

/* libm on the small integer-valued arguments the code uses (product encoding of at-most-one): sqrt is exact on perfect
 * squares and strictly between the neighbouring integers otherwise; ceil on |x| < 2^31 */
static inline double cm_sqrt(double x)
{
#ifdef CM_SQRT_UNREACHABLE
  /* this job claims (and hereby proves) that no path reaches sqrt; the floating-point code behind it is cut */
  __CPROVER_assert(0, "sqrt is unreachable in this job");
  __CPROVER_assume(0);
#endif
  long n = (long)x;
  __CPROVER_assert(x >= 0 && x <= 64 && (double)n == x, "cmodel: sqrt only modelled for integers 0..64");
  long r = 0;
  while ((r + 1) * (r + 1) <= n) r++;
  return r * r == n ? (double)r : (double)r + 0.5;
}
static inline double cm_ceil(double x)
{
  __CPROVER_assert(x > -1000000.0 && x < 1000000.0, "cmodel: ceil range");
  long t = (long)x;                       /* truncation toward zero */
  return ((double)t < x) ? (double)(t + 1) : (double)t;
}

#define CM_LT_PAIR(a, b) ((a).first < (b).first || ((a).first == (b).first && (a).second < (b).second))
#define CM_EQ_PAIR(a, b) ((a).first == (b).first && (a).second == (b).second)
/* pointer keys: addresses are not ordered by the model; new keys are appended (iteration order = insertion order) */
#define CM_LT_APPEND(a, b) (1)
#define CM_LT_SCALAR(a, b) ((a) < (b))
#define CM_EQ_SCALAR(a, b) ((a) == (b))

/* All loops over container contents run to the constant capacity with an `i < n` guard, so symbolic execution stops at
 * the capacity on its own instead of at the --unwind limit. */

/* ---------------------------------------------------------------- std::vector<T> */
#define CM_VECTOR(NAME, T, CAP)                                                                            \
  struct NAME { U_t n; T e[CAP]; };                                                                        \
  static inline struct NAME NAME##_new(void) { struct NAME v; v.n = 0; return v; }                         \
  static inline U_t NAME##_size(struct NAME *v) { return v->n; }                                           \
  static inline _Bool NAME##_empty(struct NAME *v) { return v->n == 0; }                                   \
  static inline void NAME##_clear(struct NAME *v) { v->n = 0; }                                            \
  static inline T *NAME##_begin(struct NAME *v) { return &v->e[0]; }                                       \
  static inline T *NAME##_end(struct NAME *v) { return &v->e[0] + v->n; }                                  \
  static inline void NAME##_push_back(struct NAME *v, T x) { CM_CAP_ASSERT(v->n < CAP); v->e[v->n] = x; v->n = v->n + 1; } \
  static inline void NAME##_pop_back(struct NAME *v) { __CPROVER_assert(v->n > 0, "vector::pop_back on empty vector"); v->n = v->n - 1; } \
  static inline T *NAME##_back(struct NAME *v) { __CPROVER_assert(v->n > 0, "vector::back on empty vector"); return &v->e[v->n - 1]; } \
  static inline T *NAME##_front(struct NAME *v) { __CPROVER_assert(v->n > 0, "vector::front on empty vector"); return &v->e[0]; } \
  static inline T *NAME##_idx(struct NAME *v, U_t i) { __CPROVER_assert(i < v->n, "vector index in range"); return &v->e[i]; } \
  static inline U_t NAME##_chk(struct NAME *v, U_t i) { __CPROVER_assert(i < v->n, "vector index in range"); return i; } \
  /* pointer to element i as a case split over constant element addresses (see xtract.NestedElem) */ \
  static inline T *NAME##_at(struct NAME *v, U_t i) { for (U_t k = 0; k < (CAP); k++) if (k == i) return &v->e[k]; return &v->e[0]; } \
  static inline struct NAME NAME##_new_n(U_t n, T x) { struct NAME v; CM_CAP_ASSERT(n <= CAP); v.n = n; for (U_t i = 0; i < CAP; i++) if (i < n) v.e[i] = x; return v; } \
  static inline void NAME##_resize(struct NAME *v, U_t n, T x) { CM_CAP_ASSERT(n <= CAP); for (U_t i = 0; i < CAP; i++) if (i >= v->n && i < n) v->e[i] = x; v->n = n; } \
  static inline void NAME##_assign_n(struct NAME *v, U_t n, T x) { CM_CAP_ASSERT(n <= CAP); for (U_t i = 0; i < CAP; i++) if (i < n) v->e[i] = x; v->n = n; } \
  static inline struct NAME NAME##_from_range(T *b, T *e) { struct NAME v; __CPROVER_assert(b <= e, "vector(first,last): valid range"); U_t k = (U_t)(e - b); CM_CAP_ASSERT(k <= CAP); v.n = k; \
    for (U_t i = 0; i < CAP; i++) if (i < k) v.e[i] = b[i]; return v; }                                    \
  static inline T *NAME##_erase(struct NAME *v, T *it) { __CPROVER_assert(it >= &v->e[0] && it < &v->e[0] + v->n, "vector::erase iterator valid"); \
    U_t p = (U_t)(it - &v->e[0]); for (U_t i = 0; i + 1 < CAP; i++) if (i >= p && i + 1 < v->n) v->e[i] = v->e[i + 1]; v->n = v->n - 1; return it; } \
  static inline T *NAME##_erase_range(struct NAME *v, T *b, T *e) { __CPROVER_assert(b >= &v->e[0] && b <= e && e <= &v->e[0] + v->n, "vector::erase range valid"); \
    U_t p = (U_t)(b - &v->e[0]); U_t k = (U_t)(e - b); for (U_t i = 0; i < CAP; i++) if (i >= p && i + k < v->n) v->e[i] = v->e[i + k]; v->n = v->n - k; return b; } \
  static inline T *NAME##_insert(struct NAME *v, T *it, T x) { CM_CAP_ASSERT(v->n < CAP); __CPROVER_assert(it >= &v->e[0] && it <= &v->e[0] + v->n, "vector::insert iterator valid"); \
    U_t p = (U_t)(it - &v->e[0]); for (U_t i = CAP - 1; i > 0; i--) if (i > p && i <= v->n) v->e[i] = v->e[i - 1]; v->e[p] = x; v->n = v->n + 1; return it; } \
  static inline void NAME##_insert_range(struct NAME *v, T *it, T *b, T *e) { __CPROVER_assert(it == &v->e[0] + v->n, "cmodel: vector::insert(range) only modelled at end()"); \
    __CPROVER_assert(b <= e, "vector::insert(range): valid range"); U_t k = (U_t)(e - b); CM_CAP_ASSERT(v->n + k <= CAP); \
    for (U_t i = 0; i < CAP; i++) if (i < k) v->e[v->n + i] = b[i]; v->n = v->n + k; }                       \
  static inline void NAME##_pop_front(struct NAME *v) { __CPROVER_assert(v->n > 0, "queue::pop on empty queue"); for (U_t i = 0; i + 1 < CAP; i++) if (i + 1 < v->n) v->e[i] = v->e[i + 1]; v->n = v->n - 1; } \
  static inline void NAME##_swap(struct NAME *v, struct NAME *w) { struct NAME t = *v; *v = *w; *w = t; }

/* ---------------------------------------------------------------- std::map<K,V> as a sorted array of pairs */
#define CM_MAP(NAME, PAIR, K, V, CAP, LT, EQ)                                                              \
  struct NAME { U_t n; struct PAIR e[CAP]; };                                                              \
  static inline struct NAME NAME##_new(void) { struct NAME m; m.n = 0; return m; }                         \
  static inline U_t NAME##_size(struct NAME *m) { return m->n; }                                           \
  static inline _Bool NAME##_empty(struct NAME *m) { return m->n == 0; }                                   \
  static inline void NAME##_clear(struct NAME *m) { m->n = 0; }                                            \
  static inline struct PAIR *NAME##_begin(struct NAME *m) { return &m->e[0]; }                             \
  static inline struct PAIR *NAME##_end(struct NAME *m) { return &m->e[0] + m->n; }                        \
  static inline U_t NAME##_lb(struct NAME *m, K k) { U_t r = 0; for (U_t i = 0; i < CAP; i++) if (i < m->n && LT(m->e[i].first, k)) r = i + 1; return r; } \
  static inline U_t NAME##_pos(struct NAME *m, K k) { U_t r = m->n; for (U_t i = CAP; i > 0; i--) if (i - 1 < m->n && EQ(m->e[i - 1].first, k)) r = i - 1; return r; } \
  static inline struct PAIR *NAME##_lower_bound(struct NAME *m, K k) { return &m->e[0] + NAME##_lb(m, k); } \
  static inline struct PAIR *NAME##_upper_bound(struct NAME *m, K k) { U_t r = 0; for (U_t i = 0; i < CAP; i++) if (i < m->n && !LT(k, m->e[i].first)) r = i + 1; return &m->e[0] + r; } \
  static inline struct PAIR *NAME##_find(struct NAME *m, K k) { return &m->e[0] + NAME##_pos(m, k); }       \
  static inline U_t NAME##_count(struct NAME *m, K k) { return NAME##_pos(m, k) != m->n ? 1 : 0; }          \
  static inline struct PAIR *NAME##_ins_at(struct NAME *m, U_t p, K k, V v) { CM_CAP_ASSERT(m->n < CAP);    \
    for (U_t i = CAP - 1; i > 0; i--) if (i > p && i <= m->n) m->e[i] = m->e[i - 1]; m->e[p].first = k; m->e[p].second = v; m->n = m->n + 1; return &m->e[p]; } \
  static inline struct PAIR *NAME##_emplace(struct NAME *m, K k, V v) { U_t q = NAME##_pos(m, k); if (q != m->n) return &m->e[q]; return NAME##_ins_at(m, NAME##_lb(m, k), k, v); } \
  static inline struct PAIR *NAME##_insert_or_assign(struct NAME *m, K k, V v) { U_t q = NAME##_pos(m, k); if (q != m->n) { m->e[q].second = v; return &m->e[q]; } return NAME##_ins_at(m, NAME##_lb(m, k), k, v); } \
  static inline V *NAME##_idx(struct NAME *m, K k, V dflt) { return &NAME##_emplace(m, k, dflt)->second; }  \
  static V NAME##_at_dummy;                                                                                \
  static inline V *NAME##_at(struct NAME *m, K k) { U_t q = NAME##_pos(m, k); if (q == m->n) { __exc = EXC_out_of_range; return &NAME##_at_dummy; } return &m->e[q].second; } \
  static inline struct PAIR *NAME##_erase_it(struct NAME *m, struct PAIR *it) { __CPROVER_assert(it >= &m->e[0] && it < &m->e[0] + m->n, "map::erase iterator valid"); \
    U_t p = (U_t)(it - &m->e[0]); for (U_t i = 0; i + 1 < CAP; i++) if (i >= p && i + 1 < m->n) m->e[i] = m->e[i + 1]; m->n = m->n - 1; return it; } \
  static inline U_t NAME##_erase_key(struct NAME *m, K k) { U_t q = NAME##_pos(m, k); if (q == m->n) return 0; NAME##_erase_it(m, &m->e[q]); return 1; }

/* std::sort with a strict-weak-order comparator: stable insertion sort (one of the orders std::sort may produce) */
#define CM_SORT(NAME, T, LESS)                                                                             \
  static inline void NAME(T *b, T *e)                                                                      \
  {                                                                                                        \
    if (b == e) return;                                                                                    \
    for (T *i = b + 1; i != e; i++)                                                                        \
    {                                                                                                      \
      T x = *i; T *j = i;                                                                                  \
      while (j != b && LESS(&x, j - 1)) { *j = *(j - 1); j--; }                                            \
      *j = x;                                                                                              \
    }                                                                                                      \
  }

/* std::unordered_map: same observable API; iteration order (unspecified in C++) is the key order here */
#define CM_UMAP(NAME, PAIR, K, V, CAP, LT, EQ) CM_MAP(NAME, PAIR, K, V, CAP, LT, EQ)

/* ---------------------------------------------------------------- std::set<K> / std::unordered_set<K> */
#define CM_SET(NAME, K, CAP, LT, EQ)                                                                       \
  struct NAME { U_t n; K e[CAP]; };                                                                        \
  static inline struct NAME NAME##_new(void) { struct NAME s; s.n = 0; return s; }                         \
  static inline U_t NAME##_size(struct NAME *s) { return s->n; }                                           \
  static inline _Bool NAME##_empty(struct NAME *s) { return s->n == 0; }                                   \
  static inline void NAME##_clear(struct NAME *s) { s->n = 0; }                                            \
  static inline K *NAME##_begin(struct NAME *s) { return &s->e[0]; }                                       \
  static inline K *NAME##_end(struct NAME *s) { return &s->e[0] + s->n; }                                  \
  static inline U_t NAME##_pos(struct NAME *s, K k) { U_t r = s->n; for (U_t i = CAP; i > 0; i--) if (i - 1 < s->n && EQ(s->e[i - 1], k)) r = i - 1; return r; } \
  static inline K *NAME##_find(struct NAME *s, K k) { return &s->e[0] + NAME##_pos(s, k); }                 \
  static inline U_t NAME##_count(struct NAME *s, K k) { return NAME##_pos(s, k) != s->n ? 1 : 0; }          \
  static inline void NAME##_insert(struct NAME *s, K k) { if (NAME##_pos(s, k) != s->n) return; U_t p = 0; for (U_t i = 0; i < CAP; i++) if (i < s->n && LT(s->e[i], k)) p = i + 1; \
    CM_CAP_ASSERT(s->n < CAP); for (U_t j = CAP - 1; j > 0; j--) if (j > p && j <= s->n) s->e[j] = s->e[j - 1]; s->e[p] = k; s->n = s->n + 1; } \
  static inline void NAME##_insert_range(struct NAME *s, K *b, K *e) { __CPROVER_assert(b <= e, "set::insert(range): valid range"); U_t k = (U_t)(e - b); for (U_t i = 0; i < CAP; i++) if (i < k) NAME##_insert(s, b[i]); CM_CAP_ASSERT(k <= CAP); } \
  static inline struct NAME NAME##_from_range(K *b, K *e) { struct NAME s; s.n = 0; NAME##_insert_range(&s, b, e); return s; } \
  static inline K *NAME##_erase_it(struct NAME *s, K *it) { __CPROVER_assert(it >= &s->e[0] && it < &s->e[0] + s->n, "set::erase iterator valid"); \
    U_t p = (U_t)(it - &s->e[0]); for (U_t i = 0; i + 1 < CAP; i++) if (i >= p && i + 1 < s->n) s->e[i] = s->e[i + 1]; s->n = s->n - 1; return it; } \
  static inline U_t NAME##_erase_key(struct NAME *s, K k) { U_t q = NAME##_pos(s, k); if (q == s->n) return 0; NAME##_erase_it(s, &s->e[q]); return 1; }

#endif
