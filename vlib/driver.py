"""driver: runs the jobs of one property, replays failures on the real code, prints VIOLATION / KNOWN-FINDING lines,
writes evidence/<id>.json.  Exit codes: 0 held, 1 violation (not listed as known), 2 machinery problem / undecided."""
import concurrent.futures
import json
import os
import re
import subprocess
import sys
import threading
import time

from . import engine
from .engine import VERIF, REPO, WORK

TRUSTED = [
    'clang 14 AST (-ast-dump=json) as the meaning of the C++ source',
    'xtract emitter (/verif/xtract): node-by-node rendering of the AST into C; differential self-check in thorough tier',
    'cmodel/cm.h: bounded value-type models of std::vector/map/set/pair, std::gcd/lcm',
    'CBMC 6.11.0 + goto-instrument DFCC contract instrumentation; SAT back ends minisat/cadical/kissat',
    'machine integers: proofs run at the stated bit width with overflow checks on; nothing is claimed outside the stated operand range',
]

DROPPED = ['access control', 'const', 'explicit/inline/SMT_EXPORT', 'namespaces (folded into names)',
           'destructors of automatic objects (models are value types)', 'noexcept (kept as obligation where exceptions are modelled)',
           'template machinery of libstdc++ (replaced by cmodel)']


def load_known():
    ids, fixed = set(), []
    p = os.path.join(VERIF, 'known_findings.txt')
    if os.path.exists(p):
        for line in open(p):
            line = line.strip()
            if line.startswith('finding:'):
                m = re.search(r'id=(\S+)', line)
                if m:
                    ids.add(m.group(1))
            elif line.startswith('fixed:'):
                fixed.append(line)
    return ids, fixed


_xlock = threading.Lock()


class MemPool:
    """admission control: the sum of the memory estimates (Job.mem_est, GB) of the jobs running at once stays within the
    machine's budget, so that heavy jobs do not push each other into OOM (which would only ever read as 'undecided')"""

    def __init__(self, total):
        self.total, self.used, self.cv = total, 0.0, threading.Condition()

    def acquire(self, n):
        n = min(n, self.total)
        with self.cv:
            while self.used + n > self.total:
                self.cv.wait()
            self.used += n
        return n

    def release(self, n):
        with self.cv:
            self.used -= n
            self.cv.notify_all()


def _mem_total():
    try:
        for l in open('/proc/meminfo'):
            if l.startswith('MemAvailable'):
                return max(8.0, int(l.split()[1]) / 1e6 * 0.85)
    except Exception:
        pass
    return 32.0


_pool = None


def _run(job, known_ids):
    # extraction mutates shared AST annotations: serialise it; the solver pipeline runs in parallel
    got = _pool.acquire(getattr(job, 'mem_est', 2.0)) if _pool else 0
    try:
        return engine.run_job_locked(job, known_ids, _xlock)
    except Exception as e:  # machinery error
        r = engine.Result(job)
        r.status, r.reason = 'undecided', 'internal error: %r' % (e,)
        import traceback
        r.reason += '\n' + traceback.format_exc()[-1500:]
        return r
    finally:
        if _pool:
            _pool.release(got)


def replay_failure(prop, job, fail):
    """returns ('reproduced'|'refuted'|'noinput'|'error', text, path)"""
    os.makedirs(os.path.join(VERIF, 'evidence', 'replay'), exist_ok=True)
    path = os.path.join(VERIF, 'evidence', 'replay', '%s-%s-%s.json' % (prop, re.sub(r'\W+', '_', job.name), re.sub(r'\W+', '_', fail['label'])))
    rec = {'property': prop, 'job': job.name, 'function': job.target, 'obligation': fail['property'], 'label': fail['label'],
           'description': fail['description'], 'location': fail.get('location'), 'inputs_slots': fail['slots'],
           'cbmc_trace_excerpt': fail['excerpt']}
    verdict, text = 'noinput', ''
    if job.replay and fail['slots']:
        from . import replay as rp
        verdict, text, cmd = rp.run(job, fail)
        rec['replay_cmd'] = cmd
        rec['replay_output'] = text
    elif job.replay and not fail['slots']:
        rec['note'] = 'the verifier gave no concrete input for this obligation'
    rec['verdict'] = verdict
    with open(path, 'w') as f:
        json.dump(rec, f, indent=1)
    return verdict, text, path


def main(prop, jobs, tier, level_note, not_under_contract=(), bounded_standin=None, extra_assumptions=(), explanation='', partial=False):
    t0 = time.time()
    seed = int(os.environ.get('VERIF_SEED', '0') or 0)
    known_ids, fixed = load_known()
    nproc = int(os.environ.get('VERIF_JOBS', '0') or 0) or min(16, os.cpu_count() or 4)
    # replay files are evidence of THIS run: stale ones of the jobs about to run are removed
    import glob
    for j in jobs:
        for f in glob.glob(os.path.join(VERIF, 'evidence', 'replay', '%s-%s-*.json' % (prop, re.sub(r'\W+', '_', j.name)))):
            os.remove(f)
    results = []
    global _pool
    _pool = MemPool(float(os.environ.get('VERIF_MEM_GB', '0') or 0) or _mem_total())
    with concurrent.futures.ThreadPoolExecutor(max_workers=nproc) as ex:
        # heavy jobs first, so that they overlap with the light ones instead of queueing at the end
        order = sorted(range(len(jobs)), key=lambda i: -getattr(jobs[i], 'mem_est', 2.0))
        fmap = {i: ex.submit(_run, jobs[i], known_ids) for i in order}
        futs = [fmap[i] for i in range(len(jobs))]
        for f in futs:
            results.append(f.result())
    violations, undecided, known_lines = [], [], []
    total_obl = total_dis = 0
    per_backend = {}
    funcs, samples, canaries, bounded_only = {}, [], [], []
    kinds, dropped, externals = set(), set(DROPPED), set()
    for r in results:
        j = r.job
        total_obl += r.obligations
        total_dis += r.discharged
        b = per_backend.setdefault(r.backend or 'none', {'obligations': 0, 'seconds': 0.0, 'jobs': 0})
        b['obligations'] += r.obligations
        b['seconds'] = round(b['seconds'] + r.seconds, 1)
        b['jobs'] += 1
        for fm in r.meta.get('functions', []):
            funcs.setdefault(fm['cname'], {'qualified': fm['qualified'], 'signature': fm['signature'],
                                           'where': '%s:%s-%s' % (os.path.relpath(fm['file'], REPO) if fm['file'] and fm['file'].startswith('/') else fm['file'], fm['begin'], fm['end']),
                                           'under_contract': False})
        if j.target and j.target in funcs and j.contract is not None:
            funcs[j.target]['under_contract'] = True
        kinds |= set(r.meta.get('node_kinds', []))
        dropped |= set(r.meta.get('dropped', []))
        externals |= set(r.meta.get('externals', []))
        if r.sample and len(samples) < 12:
            samples.append(dict(r.sample, job=j.name))
        canaries.append({'job': j.name, 'canary': r.canary, 'reachability_witnesses': [{'case': w, 'status': st} for (w, st) in getattr(r, 'witnesses', [])]})
        if j.bounded:
            bounded_only.append({'job': j.name, 'bound': j.bounded, 'obligations': r.obligations})
        for k in r.known_hits:
            known_lines.append('KNOWN-FINDING: property=%s id=%s %s' % (prop, k.fid, k.what))
        if r.status in ('undecided', 'break'):
            undecided.append((j.name, r.reason))
        elif r.status == 'failed':
            for fail in r.failed:
                verdict, text, path = replay_failure(prop, j, fail)
                if verdict == 'reproduced':
                    violations.append('VIOLATION property=%s replay=%s' % (prop, path))
                elif verdict == 'refuted':
                    undecided.append((j.name, 'UNDECIDED obligation=%s: counterexample does not reproduce on the real code (%s)' % (fail['property'], path)))
                elif verdict == 'error':
                    undecided.append((j.name, 'replay machinery error for %s: %s' % (fail['property'], text[-800:])))
                else:
                    violations.append('VIOLATION property=%s replay=%s no-failing-input-found' % (prop, path))
    for l in known_lines:
        print(l)
    for (n, why) in undecided:
        print('UNDECIDED job=%s %s' % (n, why.replace('\n', ' | ')[:3000]))
    for v in violations:
        print(v)
    wall = time.time() - t0
    all_ok = not violations and not undecided
    # evidence
    assumptions = list(TRUSTED) + list(extra_assumptions)
    for r in results:
        for cn in sorted(r.job.callee_contracts):
            if cn in r.job.replace:
                assumptions.append('callee %s replaced by its contract in job %s (body verified in its own job: %s)' % (
                    cn, r.job.name, 'yes' if any(x.job.target == cn and x.job.enforce for x in results) else 'NO — assumed'))
    assumptions = sorted(set(assumptions))
    ev = {
        'property_id': prop, 'tier': tier, 'seed': seed, 'level': 'proof',
        'coverage': {
            'obligations': total_obl, 'discharged': total_dis,
            'checker_cmd': (results[0].cmd if results else '')[:1500],
            'trusted_base': TRUSTED,
            'samples': samples or [{'note': 'no obligation sample (run did not complete)'}],
            'jobs': [{'job': r.job.name, 'function': r.job.target, 'status': r.status, 'obligations': r.obligations, 'discharged': r.discharged,
                      'seconds': round(r.seconds, 1), 'backend': r.backend, 'unwind': r.job.unwind, 'defines': r.job.defines,
                      'bounded': r.job.bounded, 'reason': r.reason[:300] if r.reason else ''} for r in results],
            'functions_under_contract': {k: v for k, v in sorted(funcs.items()) if v['under_contract']},
            'functions_extracted_as_callees': {k: v for k, v in sorted(funcs.items()) if not v['under_contract']},
            'per_backend': per_backend,
            'bounded_only': bounded_only,
            'bounded_standin': bounded_standin,
            'dropped_by_extraction': sorted(dropped),
            'ast_node_kinds_rendered': sorted(kinds),
            'declared_without_body': sorted(externals),
            'canaries': canaries,
            'not_under_contract': list(not_under_contract),
            'known_findings_reported': known_lines,
            'explanation': explanation,
            'exhaustive': False,
        },
        'assumptions': assumptions,
        'wall_s': round(wall, 1),
        'violations': len(violations),
    }
    # a run restricted with --only is a debugging run: its (partial) evidence must not replace the property's evidence file
    evdir = os.path.join(WORK, 'evidence-partial') if partial else os.path.join(VERIF, 'evidence')
    os.makedirs(evdir, exist_ok=True)
    with open(os.path.join(evdir, prop + '.json'), 'w') as f:
        json.dump(ev, f, indent=1)
    print('%s tier=%s jobs=%d obligations=%d discharged=%d violations=%d undecided=%d known=%d wall=%.0fs' % (
        prop, tier, len(results), total_obl, total_dis, len(violations), len(undecided), len(known_lines), wall))
    if violations:
        return 1
    if undecided:
        return 2
    return 0
