"""native replay: compile a small C++ driver against the *real* sources of /repo's working tree (-fno-access-control),
rebuild the verifier's counterexample input, call the real function and evaluate the same spec predicate natively."""
import hashlib
import os
import re
import subprocess

from .engine import VERIF, REPO, WORK

DRIVERS = {
    # driver name -> (prelude file under /verif/replay, real sources to compile, include dirs)
    'arith': ('arith_prelude.h', ['smt/arith/rational.cpp', 'smt/arith/lin.cpp'], ['smt', 'smt/arith']),
    'dl': ('dl_prelude.h', ['smt/sat_core.cpp', 'smt/clause.cpp', 'smt/constr.cpp', 'smt/theory.cpp', 'smt/sat_stack.cpp', 'smt/json/json.cpp', 'smt/arith/rational.cpp',
                           'smt/arith/lin.cpp', 'smt/arith/dl/idl_theory.cpp'], ['smt', 'smt/arith', 'smt/arith/dl', 'smt/json']),
    'rdl': ('rdl_prelude.h', ['smt/sat_core.cpp', 'smt/clause.cpp', 'smt/constr.cpp', 'smt/theory.cpp', 'smt/sat_stack.cpp', 'smt/json/json.cpp', 'smt/arith/rational.cpp',
                              'smt/arith/lin.cpp', 'smt/arith/dl/rdl_theory.cpp'], ['smt', 'smt/arith', 'smt/arith/dl', 'smt/json']),
    'sat': ('sat_prelude.h', ['smt/sat_core.cpp', 'smt/clause.cpp', 'smt/constr.cpp', 'smt/theory.cpp', 'smt/sat_stack.cpp', 'smt/json/json.cpp'],
            ['smt', 'smt/arith', 'smt/json']),
}


def run(job, fail):
    spec = job.replay
    prelude, srcs, incs = DRIVERS[spec['driver']]
    wd = os.path.join(WORK, 'replay', re.sub(r'\W+', '_', job.name))
    os.makedirs(wd, exist_ok=True)
    src = os.path.join(wd, 'replay.cpp')
    defs = ' '.join('-D%s=%s' % (k, v) for k, v in sorted(job.defines.items()) if k.startswith('SPEC_') or k.startswith('XT_'))
    with open(src, 'w') as f:
        f.write('#include "%s"\n' % prelude)
        f.write('int main(int argc, char **argv) {\n  xt_parse_slots(argc, argv);\n  bool ok = true; std::string observed, required;\n')
        f.write(spec['stanza'])
        f.write('\n  printf("RESULT reproduced=%d observed=[%s] required=[%s]\\n", ok ? 0 : 1, observed.c_str(), required.c_str());\n  return ok ? 3 : 0;\n}\n')
    exe = os.path.join(wd, 'replay')
    cmd = ['g++', '-std=c++17', '-O0', '-g', '-fno-access-control', '-w',  '-I', os.path.join(VERIF, 'replay'), '-I', os.path.join(VERIF, 'stubs'),
           '-I', os.path.join(VERIF, 'contracts')] + defs.split() + sum((['-I', os.path.join(REPO, i)] for i in incs), []) + [src] + [os.path.join(REPO, s) for s in srcs] + ['-o', exe]
    r = subprocess.run(cmd, stdout=subprocess.PIPE, stderr=subprocess.STDOUT)
    if r.returncode != 0:
        return 'error', 'replay driver failed to compile: ' + r.stdout.decode(errors='replace')[-1500:], ' '.join(cmd)
    args = ['%d=%d' % (s, v) for (s, v) in fail['slots']]
    runcmd = [exe] + args
    try:
        r2 = subprocess.run(runcmd, stdout=subprocess.PIPE, stderr=subprocess.STDOUT, timeout=60)
    except subprocess.TimeoutExpired:
        return 'reproduced', 'replay of the real function did not terminate within 60 s (hang)', ' '.join(runcmd)
    out = r2.stdout.decode(errors='replace')
    full = ' '.join(cmd) + ' && ' + ' '.join(runcmd)
    if r2.returncode == 0 and 'reproduced=1' in out:
        return 'reproduced', out, full
    if r2.returncode == 3:
        return 'refuted', out, full
    if r2.returncode < 0 or r2.returncode in (134, 139):
        return 'reproduced', out + '\n[real code terminated abnormally: status %d]' % r2.returncode, full
    return 'error', out, full
