"""property table: which contract modules decide which property"""
import importlib
import json
import re
import sys

from . import driver


def run(prop, tier, only=None, replay=None):
    if replay:
        rec = json.load(open(replay))
        print(json.dumps(rec, indent=1))
        return 0
    mod = importlib.import_module('contracts.' + prop.lower())
    jobs = mod.jobs(tier)
    if only:
        jobs = [j for j in jobs if re.search(only, j.name)]
    if not jobs:
        print('UNDECIDED no job selected for %s (tier %s, only=%r): nothing was checked' % (prop, tier, only))
        return 2
    info = getattr(mod, 'INFO', {})
    return driver.main(prop, jobs, tier, info.get('level_note', ''), not_under_contract=info.get('not_under_contract', ()),
                       extra_assumptions=info.get('assumptions', ()), explanation=info.get('explanation', ''), partial=bool(only))
