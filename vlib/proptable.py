"""which properties are claimed, at what level, and which are not applicable (source of MANIFEST.json)"""
ALL = ['C%02d' % i for i in range(1, 21)]

CLAIMED = {
    'C15': dict(
        text='Every operator of smt::rational, smt::inf_rational and smt::lin (129 functions) is extracted from /repo to C on every run and proved against a contract stating exact arithmetic on the mathematical view (cross-multiplication in double width), canonical results, the total order -inf < finite < +inf, coefficient-wise action on lin, frames and noexcept; all inputs below a stated magnitude, no overflow proved at that width.',
        design_ref='DESIGN.md §5 C15',
        note='bounded operand magnitude (quick: rational 2^3, inf_rational/lin 2^2 with <=2 terms; thorough: 2^4 / 2^3 with <=3 terms); clang AST + xtract emitter + cmodel (std::map, gcd, lcm) + CBMC/DFCC trusted; to_string not covered',
        technique='contract-based deductive verification (CBMC function contracts via goto-instrument --dfcc) on C extracted from the real C++'),
    'C13': dict(
        text='sat_core::new_eq / new_conj / new_disj / new_at_most_one / new_exct_one are extracted to C on every run and proved against contracts stating, for one arbitrary (ghost) total assignment, that the returned literal is equivalent to the formula (cardinality constructs: forces the constraint, excludes no assignment, is true-able whenever the constraint holds), that the root assignment is unchanged and that requesting the literal is conservative; new_var and new_clause are replaced by contracts in those proofs and their real bodies are proved against the same contracts.',
        design_ref='DESIGN.md §5 C13',
        note='bounded: <=4 pre-existing variables with symbolic root values, argument lists <=3 literals (quick: cardinality constructs <=2), pairwise encoding only in quick; expression cache restricted to states without a cached reified expression (cache-hit reuse not covered); std::sort modelled as a stable insertion sort; string keys modelled as token sequences; product encoding (n>=4) only in the thorough tier',
        technique='contract-based deductive verification (CBMC function contracts via goto-instrument --dfcc, callee contracts by --replace-call-with-contract, ghost clause log) on C extracted from the real C++'),
    'C12': dict(
        text='idl_theory::new_lt/new_leq/new_eq/new_geq/new_gt are extracted to C on every run and proved, for one arbitrary (ghost) integer valuation of the time points consistent with the distance matrix and one arbitrary propositional assignment, to return a literal that is true exactly when the relation holds on the difference expression, and to raise invalid_argument exactly for expressions that are not of difference form (or whose constant is not an integer multiple); new_distance and new_conj are replaced by their meaning contracts.',
        design_ref='DESIGN.md §5 C12',
        note='claimed in part: IDL relation literals only (RDL, bounds/distance/equates on expressions and the body of new_distance are not yet under contract); expressions with <=2 terms over 3 (quick) / 4 time points, |coefficients| < 4, right operand fixed to the zero expression (left - right is exact by C15); no native replay driver (violations are reported with no-failing-input-found)',
        technique='contract-based deductive verification (CBMC function contracts via goto-instrument --dfcc, callee contracts by --replace-call-with-contract) on C extracted from the real C++'),
    'C08': dict(
        text='The undo-log invariant Undo(layer, current, snapshot) is proved inductively on the real code: push opens an empty level, every mutator (idl set_dist/set_pred, lra assert_lower/assert_upper) logs the value before its first write in the level and changes only the intended entry, pop restores exactly the snapshot (distances, predecessors, enforced constraints; bounds and their reasons) and sat_core::pop_one/pop undo exactly the assignments of the last level and pop every theory once. One symbolic level is proved, lower levels are untouched by the frame, so any depth and any history length follow.',
        design_ref='DESIGN.md §5 C08',
        note='claimed in part: idl_theory, lra_theory bounds and sat_core trail; rdl_theory (same code shape), ov_theory and solver-level push/pop not yet under contract; matrix 2x2 (quick) / 3x3, 2 arithmetic variables, 4 propositional variables; value listeners not registered; lra constraint propagation callbacks abstracted; no native replay driver',
        technique='contract-based deductive verification of an inductive data-structure invariant (CBMC function contracts via goto-instrument --dfcc) on C extracted from the real C++'),
    'C10': dict(
        text='idl_theory::propagate(from, to, dist) - the incremental all-pairs-shortest-paths step every asserted difference constraint goes through - is extracted to C on every run and proved to turn a closed distance matrix into exactly the closure of the old matrix plus the new edge (D\'[i][j] = min(D[i][j], D[i][from] + dist + D[to][j])), keeping it closed; set_dist/set_pred are replaced by their C08-proved contracts. This is the inductive step of "reported distances are the tightest ones implied", so it covers histories of any length.',
        design_ref='DESIGN.md §5 C10',
        note='claimed in part: the distance-exactness step of idl_theory only; conflict detection = negative cycle, validity of explanations (predecessor matrix), re-propagation of registered constraints, matrix growth and rdl_theory are not yet under contract; 3 (quick) / 4 time points, finite weights in [-8, 8] plus the inf() sentinel',
        technique='contract-based deductive verification of an inductive invariant step (CBMC function contracts via goto-instrument --dfcc) on C extracted from the real C++'),
    'C14': dict(
        text='ov_theory::new_var(items), allows, value and new_eq are extracted to C on every run and proved: a variable created with a domain gets one literal per value (TRUE_lit for a singleton) and takes exactly one value in every model of the clauses added; allows returns the value literal or FALSE_lit; value() is exactly the set of values not excluded by the current assignment; the equality literal is true exactly when both variables take the same value, is FALSE_lit for disjoint domains, TRUE_lit for the same variable, requesting it is conservative, and the recursive call with swapped arguments is verified against the same contract. sat_core::new_var/new_clause/new_exct_one are replaced by their C13 contracts.',
        design_ref='DESIGN.md §5 C14',
        note='bounded: domains of <=2 (quick) / 3 distinct values, <=2 object variables controlled by disjoint propositional variables, root assignment compatible with exactly-one; the expression cache of ov_theory is empty (cache-hit reuse not covered); new_var(lits, vals), var_flaw and solver::new_enum not yet under contract; unordered containers with pointer keys iterate in insertion order in the model; no native replay driver',
        technique='contract-based deductive verification (CBMC function contracts via goto-instrument --dfcc, callee contracts by --replace-call-with-contract, ghost clause log) on C extracted from the real C++'),
}

_DEFAULT_NA = 'not yet brought under contract in this state of the machinery (see DESIGN.md §5 for the planned contracts)'
NOT_APPLICABLE = {p: _DEFAULT_NA for p in ALL if p not in CLAIMED}
NOT_APPLICABLE['C20'] = 'quantifies over thread schedules of std::thread/condition-variable code; CBMC contracts have no schedule semantics for this C++ and the property is not a per-call contract (DESIGN.md §5 C20)'
